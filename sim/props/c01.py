"""C01 - URI compression always picks the longest registered URI prefix,
independently of the order in which records were supplied or incrementally added.

An insertion-schedule machine: one owner map (a strict-valid record set) is
delivered to real converters by a seeded *delivery schedule*; after every
delivery step the three named observables (parse_uri, compress, is_uri) are
compared with a brute-force longest-prefix model over the part delivered so far.
Several schedules of the same map must end in converters that answer alike.
"""
from __future__ import annotations

import copy

from .. import observe, tokens
from ..core import Machine, Violation
from ..models import OwnerMap

PROP = "C01"


def gen_owner_records(rng, curie_pool, uri_pool, n):
    cp = list(curie_pool)
    up = list(uri_pool)
    rng.shuffle(cp)
    rng.shuffle(up)
    out = []
    for _ in range(n):
        if not cp or not up:
            break
        d = {"prefix": cp.pop(), "uri_prefix": up.pop(), "prefix_synonyms": [], "uri_prefix_synonyms": [],
             "pattern": rng.choice([None, None, "^\\d+$", "^[a-z]+$"])}
        for _ in range(rng.choice([0, 0, 1, 1, 2, 3])):
            if up:
                d["uri_prefix_synonyms"].append(up.pop())
        if cp and rng.random() < 0.3:
            d["prefix_synonyms"].append(cp.pop())
        out.append(d)
    return out


ROTATIONS = (("parse_uri", "compress", "is_uri"), ("is_uri", "parse_uri", "compress"), ("compress", "is_uri", "parse_uri"),
             ("parse_uri", "is_uri", "compress"), ("is_uri", "compress", "parse_uri"), ("compress", "parse_uri", "is_uri"))
DERIVED_SITES = ("chain", "get_subconverter", "rewire", "remap_uri", "remap_curie", "deepcopy", "pickle", "copy", "shallow")


class _NotARecord(ValueError):
    """Record(**submission) raised inside the harness: the submission is not a record under this library."""


class C01Machine(Machine):
    PROP = PROP
    EXPECTED_PROBES = [
        "nested_match", "synonym_nested_in_other_record", "empty_uri_prefix_registered",
        "probe_equals_prefix", "probe_one_short", "split_delivery", "dup_rejected", "clash_rejected",
        "confluence_group", "chain_parts", "multi_char_delimiter", "non_bmp_probe_matched",
        "piece_carrier_canonical", "piece_carrier_synonym", "piece_carrier_via_uri", "piece_carrier_restated",
        "chain_parts_overlapping", "delivery_not_observed", "catch_up_observation", "flag_variants_on_hit",
        "more_than_64_deliveries_between_two_looks", "more_than_256_deliveries_between_two_looks",
        "derived_view_extended_before_first_look", "piece_into_loaded_record",
        "bulk_via_ctor", "bulk_via_epm", "bulk_via_priority", "bulk_via_reverse", "large_owner_map", "derived_view_sub", "derived_view_chain_self", "derived_view_rewire", "derived_view_remap_uri",
        "derived_view_remap_curie", "record_with_pattern", "piece_with_pattern", "records_given_as_generator", "records_given_as_iterator",
        "records_given_as_dict_values", "records_given_as_tuple", "records_given_as_map", "more_than_256_uri_prefixes",
        "flood_of_lookups_between_deliveries", "flood_of_more_than_2048_lookups", "flag_variants_on_miss_then_plain_again", "derived_view_deepcopy", "derived_view_pickle", "derived_view_copy", "derived_view_shallow", "base_extended_while_derived_view_alive",
    ]

    @classmethod
    def draw_config(cls, rng, tier):
        deep = tier == "thorough" and rng.random() < 0.3
        n_uri = rng.randint(3, 14) if not deep else rng.randint(10, 26)
        large = rng.random() < (0.02 if tier == "quick" else 0.06)
        cfg = {
            "max_ops": (40 if not deep else 90) if not large else 400,
            "deep": deep,
            "large": large,
            "delimiter": rng.choice(tokens.DELIMITERS),
            "curie_pool": tokens.pick_pool(rng, tokens.CURIE_PREFIXES, tokens.RARE_CURIE_PREFIXES, 3, 10),
            "uri_pool": tokens.pick_pool(rng, tokens.URI_PREFIXES, tokens.RARE_URI_PREFIXES, n_uri, n_uri, rare_p=0.2),
            "n_records": (rng.randint(1, 8) if not deep else rng.randint(6, 14)) if not large else rng.choice([15, 16, 17, 24, 31, 32, 33, 45, 64, 65, 100]),
            "n_schedules": 3 if rng.random() < 0.25 else 1,
            "p_ctor_first": rng.choice([0.0, 0.3, 0.7]),
            "p_split": rng.choice([0.0, 0.3, 0.6]),
            "p_dup": rng.choice([0.0, 0.15, 0.3]),
            "p_add_prefix": rng.choice([0.2, 0.5, 0.8]),
            "p_chain_parts": rng.choice([0.0, 0.0, 0.2]),
            # how often the converter is looked at: after every step, or only every k-th delivery, or only
            # at the end of a schedule (a loaded converter that is extended before its first lookup)
            "check_every": rng.choice([1, 1, 1, 1, 1, 2, 3, 1000000]),
            # a flood of distinct throw-away lookups between two deliveries (what compressing a column of a
            # few thousand URIs does): 0 = none
            "flood": rng.choice([300, 600, 1100, 2100, 2600, 4200, 9000]) if rng.random() < (0.05 if tier == "quick" else 0.08) else 0,
        }
        huge = large and rng.random() < 0.15      # past 256 records / URI prefixes
        cfg["huge"] = huge
        if huge:
            cfg["check_every"] = rng.choice([1, 1000000, 1000000])
            cfg["n_records"] = rng.choice([128, 129, 255, 256, 257, 258, 300])
            if cfg["check_every"] > 99 and rng.random() < 0.5:
                cfg["n_records"] = rng.choice([270, 300])     # room for more than 256 deliveries between two looks
            cfg["curie_pool"] = cfg["curie_pool"] + tokens.synthetic_curie_prefixes(340)
            cfg["uri_pool"] = cfg["uri_pool"] + tokens.synthetic_uri_prefixes(rng.randint(620, 720))
            cfg["n_schedules"] = 1
            cfg["p_ctor_first"] = 0.7
            cfg["max_ops"] = 1400
        elif large:
            cfg["curie_pool"] = cfg["curie_pool"] + tokens.synthetic_curie_prefixes(70)
            cfg["uri_pool"] = cfg["uri_pool"] + tokens.synthetic_uri_prefixes(rng.randint(60, 110))
            cfg["n_schedules"] = 1 if rng.random() < 0.7 else 2
        return cfg

    def __init__(self, config, known=frozenset()):
        super().__init__(config, known)
        from ..env import load_curies

        self.curies = load_curies()
        self.plan = None          # list of ops still to emit
        self.conv = None
        self.owners = OwnerMap()
        self.names = {}           # CURIE prefix / synonym -> canonical CURIE prefix, as delivered (from Record objects)
        self.route_of = {}        # URI prefix -> the route on which it was delivered
        self.delivered = []       # record dumps delivered so far (whole or in part)
        self.finals = []          # final answers per schedule
        if config.get("huge"):
            up = config["uri_pool"]
            nb = max(0, len(up) - 620)
            self.probes = tokens.uri_probes(up[:nb] + up[nb::9], extra_tails=("1",), alphabet=("a",), shapes_for=6)
        elif config.get("large"):
            self.probes = tokens.uri_probes(config["uri_pool"], extra_tails=("1",), alphabet=("a", "/"), shapes_for=8)
        else:
            self.probes = tokens.uri_probes(config["uri_pool"])
        self.saw_nested = False
        self.saw_multi = False
        self.saw_incremental = False
        self.schedule_no = 0
        self.focus = []
        self.tainted = False
        self.delimiter_given = None
        self.n_probe_checks = 0
        self.n_looks = 0
        self.check_every = int(config.get("check_every", 1))
        self.flood = []
        self.n_deliveries = 0
        self.dirty = False

    # ----------------------------------------------------------- generation
    def gen_op(self, rng):
        if self.plan is None:
            self.plan = self._plan(rng)
        if not self.plan:
            return None
        return self.plan.pop(0)

    def _plan(self, rng):
        cfg = self.config
        recs = gen_owner_records(rng, cfg["curie_pool"], cfg["uri_pool"], cfg["n_records"])
        plan = []
        for k in range(cfg["n_schedules"]):
            plan.extend(self._schedule(rng, copy.deepcopy(recs), k))
        if cfg["n_schedules"] > 1:
            plan.append({"op": "confluence"})
        return plan

    def _schedule(self, rng, recs, k):
        cfg = self.config
        rng.shuffle(recs)
        steps = []
        if rng.random() < cfg["p_chain_parts"] and len(recs) >= 2:
            cut = rng.randint(1, len(recs) - 1)
            a, b = recs[:cut], recs[cut:]
            overlapping = False
            if rng.random() < 0.5:
                # overlapping parts: a record of the first part appears again in the second one, restated
                # with (some of) its URI-prefix synonyms, so that chain() really merges
                a2 = []
                for r in a:
                    if r["uri_prefix_synonyms"] and rng.random() < 0.7:
                        keep = [u for u in r["uri_prefix_synonyms"] if rng.random() < 0.4]
                        moved = [u for u in r["uri_prefix_synonyms"] if u not in keep]
                        a2.append(dict(r, uri_prefix_synonyms=keep))
                        if moved:
                            b = b + [dict(r, prefix_synonyms=[], uri_prefix_synonyms=moved)]
                            overlapping = True
                    else:
                        a2.append(r)
                a = a2
            rng.shuffle(a)
            rng.shuffle(b)
            return [{"op": "chain_parts", "parts": [a, b], "delimiter": cfg["delimiter"], "schedule": k,
                     "overlapping": overlapping}]
        n_first = 0
        if rng.random() < cfg["p_ctor_first"]:
            n_first = rng.randint(0, len(recs))
        if cfg.get("huge"):
            if cfg.get("check_every", 1) >= 3 and rng.random() < 0.6:
                # a small loaded converter, then hundreds of deliveries between two looks at it
                n_first = rng.randint(1, 8)
            else:
                n_first = max(n_first, len(recs) - rng.randint(3, 40))
        elif cfg.get("large") and cfg.get("check_every", 1) >= 3 and rng.random() < 0.5:
            n_first = rng.randint(1, 4)
        elif cfg.get("large") and rng.random() < 0.5:
            # everything is loaded in bulk except the records that hold the SHORTEST URI prefixes, which
            # arrive incrementally afterwards (what a structure sized at load time would not expect)
            recs.sort(key=lambda r: -min(len(u) for u in [r["uri_prefix"], *r["uri_prefix_synonyms"]]))
            n_first = max(1, len(recs) - rng.randint(1, 3))
            self.shortest_last = True
        first = recs[:n_first]
        later0 = []
        if not cfg.get("huge"):
            # a record of the bulk part may also be split: its head goes to the constructor / loader, (some
            # of) its URI-prefix synonyms arrive later as merges into that loaded record
            first2 = []
            for r in first:
                if r["uri_prefix_synonyms"] and rng.random() < cfg["p_split"]:
                    keep = [u for u in r["uri_prefix_synonyms"] if rng.random() < 0.3]
                    first2.append(dict(r, uri_prefix_synonyms=keep))
                    for u in r["uri_prefix_synonyms"]:
                        if u in keep:
                            continue
                        carrier = rng.choice(["canonical", "synonym", "via_uri", "restated"])
                        if carrier == "synonym" and not r["prefix_synonyms"]:
                            carrier = "canonical"
                        later0.append({"op": "merge_piece", "prefix": r["prefix"], "uri_prefix": u, "schedule": k,
                                       "carrier": carrier, "pattern": rng.choice([None, None, r.get("pattern")]),
                                       "carrier_prefix": r["prefix_synonyms"][0] if carrier == "synonym" else None,
                                       "anchor_uri": r["uri_prefix"], "into_loaded_record": True,
                                       "via": "add_prefix" if rng.random() < 0.5 else "add_record"})
                else:
                    first2.append(r)
            first = first2
        # the bulk part may also arrive through a loader ("supplied" covers every way records get in)
        via = rng.choice(["ctor", "ctor", "epm", "priority", "reverse"])
        if via in ("priority", "reverse") and any(r["prefix_synonyms"] for r in first):
            via = "epm"
        step0 = {"op": "ctor", "via": via, "records": first, "delimiter": cfg["delimiter"], "schedule": k,
                 "container": rng.choice(tokens.CONTAINERS)}
        if via == "reverse":
            # a reverse prefix map is a dict: its insertion order is part of the supply order
            pairs = [[u, r["prefix"]] for r in first for u in [r["uri_prefix"], *r["uri_prefix_synonyms"]]]
            rng.shuffle(pairs)
            step0["rpm_pairs"] = pairs
        steps.append(step0)
        later = list(later0)
        for r in recs[n_first:]:
            kind = "add_prefix" if rng.random() < cfg["p_add_prefix"] else "add_record"
            if r["uri_prefix_synonyms"] and rng.random() < cfg["p_split"]:
                # canonical part now, each URI-prefix synonym later as its own merge
                head = dict(r, uri_prefix_synonyms=[])
                steps.append({"op": kind, "record": head, "schedule": k})
                for u in r["uri_prefix_synonyms"]:
                    carrier = rng.choice(["canonical", "canonical", "synonym", "via_uri", "restated"])
                    if carrier == "synonym" and not r["prefix_synonyms"]:
                        carrier = "canonical"
                    later.append({"op": "merge_piece", "prefix": r["prefix"], "uri_prefix": u, "schedule": k,
                                  "carrier": carrier, "pattern": rng.choice([None, None, r.get("pattern")]),
                                  "carrier_prefix": r["prefix_synonyms"][0] if carrier == "synonym" else None,
                                  "anchor_uri": r["uri_prefix"],
                                  "via": "add_prefix" if rng.random() < 0.5 else "add_record"})
            else:
                steps.append({"op": kind, "record": r, "schedule": k})
            if rng.random() < cfg["p_dup"]:
                later.append({"op": "dup", "record": r, "schedule": k,
                              "via": "add_prefix" if rng.random() < 0.5 else "add_record"})
            if rng.random() < cfg["p_dup"]:
                # a submission that must be rejected although most of it is new: fresh CURIE prefix, fresh
                # URI prefixes FIRST, and one URI prefix that record r already owns LAST - nothing of the
                # fresh part may become a registered URI prefix
                used_u = {u for x in recs for u in [x["uri_prefix"], *x["uri_prefix_synonyms"]]}
                free_u = [u for u in cfg["uri_pool"] if u not in used_u][:2] or ["zq:" + str(len(later)) + "/"]
                clash_rec = {"prefix": "zq" + str(len(later)), "uri_prefix": free_u[0], "prefix_synonyms": [],
                             "uri_prefix_synonyms": free_u[1:] + [rng.choice([r["uri_prefix"], *r["uri_prefix_synonyms"]])],
                             "pattern": None}
                later.append({"op": "clash", "record": clash_rec, "anchor": r["prefix"], "schedule": k,
                              "via": "add_prefix" if rng.random() < 0.5 else "add_record"})
        tail = []
        if rng.random() < 0.3:
            allp = [r["prefix"] for r in recs] + [x for r in recs for x in r["prefix_synonyms"]]
            tail.append({"op": "derived_view", "kind": "sub", "schedule": k,
                         "prefixes": [p for p in allp if rng.random() < 0.6], "follow_up": rng.random() < 0.5})
        if rng.random() < 0.2:
            tail.append({"op": "derived_view", "kind": "chain_self", "schedule": k,
                         "case_sensitive": rng.random() < 0.5, "follow_up": rng.random() < 0.5})
        if rng.random() < 0.2:
            # a converter that went through the copy / pickle protocol (how one reaches a worker process)
            tail.append({"op": "derived_view", "kind": rng.choice(["deepcopy", "pickle", "copy", "shallow", "shallow"]), "schedule": k,
                         "follow_up": rng.random() < 0.5, "follow_up_on_base": rng.random() < 0.4})
        if rng.random() < 0.25 and recs:
            # a converter produced by a reconciliation function: C01 must hold over ITS OWN records
            r0 = rng.choice(recs)
            kind2 = rng.choice(["rewire", "remap_uri", "remap_curie"])
            if kind2 == "rewire":
                mapping = [[rng.choice([r0["prefix"], *r0["prefix_synonyms"]]), rng.choice(cfg["uri_pool"] + ["n:9/"])]]
            elif kind2 == "remap_uri":
                mapping = [[rng.choice([r0["uri_prefix"], *r0["uri_prefix_synonyms"]]), rng.choice(cfg["uri_pool"] + ["n:9/"])]]
            else:
                mapping = [[r0["prefix"], rng.choice(cfg["curie_pool"] + ["new9"])]]
            tail.append({"op": "derived_view", "kind": kind2, "mapping": mapping, "schedule": k,
                         "follow_up": rng.random() < 0.5})
        if cfg.get("flood") and not cfg.get("huge") and len(steps) >= 2:
            for _ in range(rng.choice([1, 1, 2])):
                steps.insert(rng.randint(1, len(steps) - 1), {"op": "flood", "n": cfg["flood"], "schedule": k})
        # interleave the later pieces at seeded positions after their head
        for piece in later:
            key = piece["prefix"] if "prefix" in piece else piece.get("anchor", piece["record"]["prefix"])
            head_pos = max(
                (i for i, s in enumerate(steps)
                 if s.get("record", {}).get("prefix") == key
                 or any(r["prefix"] == key for r in s.get("records", []))),
                default=0,
            )
            pos = rng.randint(head_pos + 1, len(steps))
            steps.insert(pos, piece)
        return steps + tail

    @staticmethod
    def simplify_op(op):
        if op["op"] in ("add_record", "add_prefix", "dup") and "record" in op:
            r = op["record"]
            for key in ("uri_prefix_synonyms", "prefix_synonyms"):
                for i in range(len(r[key])):
                    c = copy.deepcopy(op)
                    del c["record"][key][i]
                    yield c
        if op["op"] == "flood":
            for n2 in (300, 1100, 2100):
                if n2 < op["n"]:
                    yield dict(op, n=n2)
        if op["op"] == "ctor":
            for i in range(len(op["records"])):
                c = copy.deepcopy(op)
                del c["records"][i]
                yield c
            for i, r in enumerate(op["records"]):
                for key in ("uri_prefix_synonyms", "prefix_synonyms"):
                    for j in range(len(r[key])):
                        c = copy.deepcopy(op)
                        del c["records"][i][key][j]
                        yield c
        if op["op"] == "chain_parts":
            for pi, part in enumerate(op["parts"]):
                for i in range(len(part)):
                    c = copy.deepcopy(op)
                    del c["parts"][pi][i]
                    yield c
        if op.get("delimiter") not in (None, ":"):
            c = copy.deepcopy(op)
            c["delimiter"] = ":"
            yield c

    # ------------------------------------------------------------ execution
    def _register(self, rec, owner=None, route="record"):
        """Enter a delivered record into the owner map - from the Record OBJECT the library built from the
        caller's data (what a Record validator drops or normalises was never registered), not from the op."""
        for u in [rec.uri_prefix, *rec.uri_prefix_synonyms]:
            self.owners.register(u, rec.prefix if owner is None else owner)
            self.route_of[u] = route
        for n in [rec.prefix, *rec.prefix_synonyms]:
            self.names.setdefault(n, rec.prefix if owner is None else owner)

    def _catch_up(self):
        self.unobserved_run = 0
        if self.dirty and self.conv is not None:
            self.dirty = False
            self.focus = []
            self.probe("catch_up_observation")
            self._check("first look after unobserved deliveries")

    def _new_schedule(self):
        self._catch_up()
        if self.conv is not None:
            self.finals.append(self._final_answers())
        self.conv = None
        self.owners = OwnerMap()
        self.names = {}
        self.route_of = {}
        self.flood = []
        self.schedule_no += 1

    def apply(self, op):
        try:
            return self._apply(op)
        except Violation:
            raise
        except ValueError as e:
            # the library REFUSED a delivery (a ValueError). Which submissions are accepted is C05's
            # business, and a stricter library is entitled to refuse; for C01 a refused delivery must simply
            # leave no trace, and the schedule is no longer comparable with the others
            self.event("delivery_refused")
            self.tainted = True
            if self.conv is not None and op.get("op") in ("add_record", "add_prefix", "merge_piece"):
                # what was delivered before the refusal is still exactly what is registered
                self.focus = []
                self.dirty = False
                self._check("refused " + str(op.get("op")))
            return {"refused": True}
        except Exception as e:  # noqa: BLE001
            from ..env import HarnessError
            if isinstance(e, HarnessError):
                raise
            # every delivery in a schedule is valid by construction (strict-valid owner map, pieces that
            # match exactly their own record): a route that cannot take it while another can makes the
            # converter depend on how the records were supplied
            raise Violation(PROP, "valid_delivery_raised", op.get("op", "?"),
                            {"exception": type(e).__name__, "message": str(e)[:300], "op": op})

    def _mk(self, r):
        """Build the Record of a delivery. A submission the library's Record class refuses to build
        (with whatever exception class) never reaches a converter: for C01 that is a refused delivery,
        exactly like a ValueError from the add call - which records exist is not this property's business."""
        try:
            return self.curies.Record(**r)
        except Exception as e:  # noqa: BLE001
            self.event("record_not_constructible")
            raise _NotARecord(type(e).__name__) from None

    def _record_class_drops(self, name):
        """Does the Record class itself drop (or refuse) ``name`` in a URI-prefix synonym list?"""
        memo = self.__dict__.setdefault("_drops", {})
        if name not in memo:
            try:
                r = self.curies.Record(prefix="zzq", uri_prefix="zzq:", uri_prefix_synonyms=[name])
                memo[name] = name not in r.uri_prefix_synonyms
            except Exception:  # noqa: BLE001
                memo[name] = True
        return memo[name]

    def _route_drops(self, name, route):
        """Does the ROUTE on which ``name`` was delivered leave it out also when it is the only thing
        delivered to a converter without records (a sanitisation that lies in the submission, not in the
        order or the company it arrived in)?"""
        memo = self.__dict__.setdefault("_route_drops_memo", {})
        key = (route, name)
        if key not in memo:
            C = self.curies.Converter
            try:
                if route == "record":
                    # (the Record class keeps the name - asked already; a converter may still store a cleaned
                    # copy of a record it is given: constructor and add_record are both probed)
                    R = self.curies.Record
                    e = C([R(prefix="zzq", uri_prefix="zzq:", uri_prefix_synonyms=[name])])
                    if any(name in [r.uri_prefix, *r.uri_prefix_synonyms] for r in e.records):
                        e = C([])
                        e.add_record(R(prefix="zzq", uri_prefix="zzq:", uri_prefix_synonyms=[name]))
                elif route == "add_prefix":
                    e = C([])
                    e.add_prefix("zzq", "zzq:", uri_prefix_synonyms=[name])
                elif route == "epm":
                    e = C.from_extended_prefix_map([{"prefix": "zzq", "uri_prefix": "zzq:", "uri_prefix_synonyms": [name]}])
                elif route == "priority":
                    e = C.from_priority_prefix_map({"zzq": ["zzq:", name]})
                else:
                    e = C.from_reverse_prefix_map({"zzq:": "zzq", name: "zzq"})
                memo[key] = not any(name in [r.uri_prefix, *r.uri_prefix_synonyms] for r in e.records)
            except Exception:  # noqa: BLE001
                memo[key] = True
        return memo[key]

    def _still_disjoint(self, objs, overlapping=False):
        """The generated owner map is strict-valid as DATA; the Record class may normalise names (case,
        Unicode form, blanks) so that two records now share one - then this is no longer one valid map and
        what chain() makes of it is C09's business, not a delivery schedule of C01."""
        seen_c, seen_u = {}, {}
        for o in objs:
            for name, seen in [(n, seen_c) for n in [o.prefix, *o.prefix_synonyms]] + [(n, seen_u) for n in [o.uri_prefix, *o.uri_prefix_synonyms]]:
                if seen.setdefault(name, o.prefix) != o.prefix:
                    self.event("map_not_disjoint_after_record_normalisation")
                    raise _NotARecord("normalised names collide")

    def _apply(self, op):
        c = self.curies
        Converter = c.Converter
        Record = lambda **r: self._mk(r)      # noqa: E731 - every Record of a delivery goes through _mk
        kind = op["op"]
        site = kind
        if kind == "confluence":
            self._catch_up()
            if self.conv is not None:
                self.finals.append(self._final_answers())
                self.conv = None
            self.probe("confluence_group")
            ref = self.finals[0] if self.finals else None
            if self.tainted:
                self.event("confluence_skipped_after_refusal")
                return {"confluence": "skipped"}
            for n, f in enumerate(self.finals[1:], start=1):
                if f["owners"] != ref["owners"]:
                    # the schedules did not register the same owner map (a Record validator dropped or
                    # normalised something that another route delivered as it was): not comparable
                    self.event("confluence_skipped_owner_maps_differ")
                    continue
                a, b = ref["answers"], f["answers"]
                if ref["delimiter"] != f["delimiter"]:
                    # chain() builds with the default delimiter: not an order effect
                    a = {u: [v[0], v[2]] for u, v in a.items()}
                    b = {u: [v[0], v[2]] for u, v in b.items()}
                if a != b:
                    raise Violation(PROP, "order_dependent_answer", "schedules",
                                    {"schedule": n, "diff": observe.diff(a, b)})
            return {"confluence": len(self.finals)}
        if kind == "flood":
            if self.conv is None:
                return {"skipped": True}
            self._catch_up()
            pool = self.config["uri_pool"]
            conv, owners = self.conv, self.owners
            flood = []
            for i in range(int(op["n"])):
                u = pool[i % len(pool)] + "f" + str(i // len(pool))
                flood.append(u)
                want = owners.parse(u)
                for name in ROTATIONS[i % 6]:          # every flood string through all three methods
                    if name == "parse_uri":
                        got, exp = observe.call(conv.parse_uri, u, return_none=True), ["ok", None if want is None else [want[0], want[1]]]
                    elif name == "is_uri":
                        got, exp = observe.call(conv.is_uri, u), ["ok", want is not None]
                    else:
                        got, exp = observe.call(conv.compress, u), ["ok", None if want is None else want[0] + conv.delimiter + want[1]]
                    if got != exp:
                        raise Violation(PROP, name + "_mismatch", "flood of lookups",
                                        {"uri": u, "got": got, "expected": exp, "nth_lookup": i})
            # a spread of the flood (old and recent strings) is asked again after every later delivery
            step = max(1, len(flood) // 40)
            self.flood = list(dict.fromkeys(flood[::step] + flood[:6] + flood[-6:]))
            self.probe("flood_of_lookups_between_deliveries")
            if len(flood) > 2048:
                self.probe("flood_of_more_than_2048_lookups")
            return {"flood": len(flood)}
        if kind == "derived_view":
            # "for every converter": a converter derived from the current one must obey the same rule
            # over the owner map it denotes (sub-converter: the records named; chain of itself: all)
            if self.conv is None:
                return {"skipped": True}
            self._catch_up()
            base, base_owners = self.conv, self.owners
            if op["kind"] == "sub":
                derived = base.get_subconverter(list(op["prefixes"]))
                # which records it selected is C09's business; C01 is judged over the URI prefixes that
                # the derived converter's own records register
                owners = OwnerMap()
                for r in derived.records:
                    for u in [r.uri_prefix, *r.uri_prefix_synonyms]:
                        owners.register(u, r.prefix)
                site = "get_subconverter"
            elif op["kind"] in ("deepcopy", "pickle", "copy", "shallow"):
                import pickle

                try:
                    if op["kind"] == "deepcopy":
                        derived = copy.deepcopy(base)
                    elif op["kind"] == "shallow":
                        derived = copy.copy(base)        # shares whatever a shallow copy shares: both must stay right
                    elif op["kind"] == "copy":
                        derived = base.model_copy(deep=True) if hasattr(base, "model_copy") else copy.deepcopy(base)
                    else:
                        derived = pickle.loads(pickle.dumps(base))
                except Exception:  # noqa: BLE001 - whether a converter can be copied / pickled at all is not C01's business
                    self.event("derived_view_rejected")
                    return {"derived_view": op["kind"], "raised": True}
                owners = OwnerMap()
                for r in derived.records:
                    for u in [r.uri_prefix, *r.uri_prefix_synonyms]:
                        owners.register(u, r.prefix)
                site = op["kind"]
            elif op["kind"] == "chain_self":
                try:
                    derived = c.chain([base], case_sensitive=op.get("case_sensitive", True))
                except Exception:  # noqa: BLE001 - e.g. records bridged up to case: C09's business
                    self.event("derived_view_rejected")
                    return {"derived_view": op["kind"], "raised": True}
                owners = OwnerMap()
                if op.get("case_sensitive", True):
                    owners.owners = dict(base_owners.owners)     # chain([c]) is equivalent to c
                else:
                    for r in derived.records:                     # records equal up to case were merged
                        for u in [r.uri_prefix, *r.uri_prefix_synonyms]:
                            owners.register(u, r.prefix)
                site = "chain"
            else:
                from curies import reconciliation

                fn = {"rewire": reconciliation.rewire, "remap_uri": reconciliation.remap_uri_prefixes,
                      "remap_curie": reconciliation.remap_curie_prefixes}[op["kind"]]
                try:
                    derived = fn(base, {k: v for k, v in op["mapping"]})
                except Exception:  # noqa: BLE001 - which remappings are rejected is C11/C12's business
                    self.event("derived_view_rejected")
                    return {"derived_view": op["kind"], "raised": True}
                owners = OwnerMap()
                for r in derived.records:
                    for u in [r.uri_prefix, *r.uri_prefix_synonyms]:
                        owners.register(u, r.prefix)
                site = op["kind"]
            extended = None
            if op.get("follow_up"):
                # the derived converter (or, the other way round, the BASE while the derived one is alive) is
                # extended before the derived converter is looked at for the first time
                target_conv = base if op.get("follow_up_on_base") else derived
                try:
                    Record(prefix="dvnew", uri_prefix="dv:new/", uri_prefix_synonyms=["dv:new/x_"])
                    target_conv.add_prefix("dvnew", "dv:new/", uri_prefix_synonyms=["dv:new/x_"])
                    extended = "base" if target_conv is base else "derived"
                    self.probe("derived_view_extended_before_first_look")
                    if extended == "base":
                        self.probe("base_extended_while_derived_view_alive")
                except ValueError:
                    pass
            # both converters are judged over what their OWN records register after the extension (a shallow
            # copy shares its record list with the base: then both know the new record, and both must find it)
            def own_map(conv_):
                m = OwnerMap()
                for r_ in conv_.records:
                    for u_ in [r_.uri_prefix, *r_.uri_prefix_synonyms]:
                        m.owners.setdefault(u_, r_.prefix)
                return m

            if extended is not None:
                owners = own_map(derived) if op["kind"] not in ("chain_self",) or not op.get("case_sensitive", True) or extended else owners
            self.conv, self.owners = derived, owners
            try:
                self.focus = ["dv:new/1", "dv:new/x_1"] if extended else []
                self._check(site)
                if extended is not None:
                    # ... and the base again, after something was added on one side
                    self.conv, self.owners = base, own_map(base)
                    self.focus = ["dv:new/1", "dv:new/x_1"]
                    self._check(site + " (base, after the extension)")
                    if extended == "base":
                        base_owners = self.owners
            finally:
                self.conv, self.owners = base, base_owners
            self.probe("derived_view_" + op["kind"])
            return {"derived_view": op["kind"], "owners": len(owners.owners)}
        if kind == "ctor":
            self._new_schedule()
            via = op.get("via", "ctor")
            delim = op.get("delimiter", ":")
            recs = op["records"]
            objs = []
            if via == "epm":
                items = []
                for n_, r in enumerate(recs):
                    shape = (n_ + len(recs) + self.steps) % 3
                    objs.append(Record(**r))     # (for the dict shapes: pre-flight, see _mk)
                    if shape == 0:
                        items.append(Record(**r))                                   # a Record object
                    elif shape == 1:
                        items.append({k: v for k, v in r.items() if v not in ([], None)})   # optional keys left out
                    else:
                        items.append(dict(r))
                self.conv = Converter.from_extended_prefix_map(
                    tokens.as_container(op.get("container", "list"), items), delimiter=delim)
                self.probe("epm_given_as_" + op.get("container", "list"))
            elif via == "priority":
                for r in recs:
                    objs.append(Record(prefix=r["prefix"], uri_prefix=r["uri_prefix"], uri_prefix_synonyms=list(r["uri_prefix_synonyms"])))
                self.conv = Converter.from_priority_prefix_map(
                    {r["prefix"]: [r["uri_prefix"], *r["uri_prefix_synonyms"]] for r in recs}, delimiter=delim)
            elif via == "reverse":
                for r in recs:
                    objs.append(Record(prefix=r["prefix"], uri_prefix=r["uri_prefix"], uri_prefix_synonyms=list(r["uri_prefix_synonyms"])))
                rpm = {}
                known = {(u, r["prefix"]) for r in recs for u in [r["uri_prefix"], *r["uri_prefix_synonyms"]]}
                for u, pr in op.get("rpm_pairs", []):
                    if (u, pr) in known:          # (minimisation may have removed records)
                        rpm[u] = pr
                for r in recs:
                    for u in [r["uri_prefix"], *r["uri_prefix_synonyms"]]:
                        rpm.setdefault(u, r["prefix"])
                self.conv = Converter.from_reverse_prefix_map(rpm, delimiter=delim)
            else:
                objs = [Record(**r) for r in recs]
                self.conv = Converter(tokens.as_container(op.get("container", "list"), list(objs)), delimiter=delim)
                self.probe("records_given_as_" + op.get("container", "list"))
            # the delimiter the converter was GIVEN (remembered here, not read back from the object)
            self.delimiter_given = delim
            for o in objs:
                self._register(o, route={"epm": "epm", "priority": "priority", "reverse": "reverse"}.get(via, "record"))
            self.event("ctor")
            self.probe("bulk_via_" + via)
        elif kind == "chain_parts":
            self._new_schedule()
            pobjs = [[Record(**r) for r in part] for part in op["parts"]]
            self._still_disjoint([o for po in pobjs for o in po], overlapping=bool(op.get("overlapping")))
            parts = [Converter(list(po)) for po in pobjs]
            self.conv = c.chain(parts)
            self.delimiter_given = None
            # chain() builds with the default delimiter; the property is about whatever
            # delimiter the converter has, so read it from the object
            for po in pobjs:
                for o in po:
                    self._register(o)
            self.probe("chain_parts")
            if op.get("overlapping"):
                self.probe("chain_parts_overlapping")
            self.saw_incremental = True
            site = "chain"
        else:
            if self.conv is None:
                self._new_schedule()
                self.conv = Converter([], delimiter=self.config["delimiter"])
                self.delimiter_given = self.config["delimiter"]
            conv = self.conv
            # query - add - query: the strings this delivery is about are the last lookups before the
            # call and the first lookups after it
            if kind in ("add_record", "add_prefix", "dup", "clash"):
                new_uris = [op["record"]["uri_prefix"], *op["record"]["uri_prefix_synonyms"]]
            elif kind == "merge_piece":
                new_uris = [op["uri_prefix"]]
            else:
                new_uris = []
            self.n_deliveries += 1
            observed = self.check_every == 1 or self.n_deliveries % self.check_every == 0
            self.observed_now = observed
            self.focus = [u + "1" for u in new_uris[-2:]][::-1] if observed else []
            for f in reversed(self.focus):
                # (the last lookups before the call: their order rotates as well)
                for name in ROTATIONS[(self.n_deliveries + 3) % 6]:
                    if name == "is_uri":
                        observe.call(conv.is_uri, f)
                    elif name == "compress":
                        observe.call(conv.compress, f)
                    else:
                        observe.call(conv.parse_uri, f, return_none=True)
            if kind in ("add_record", "add_prefix"):
                r = op["record"]
                site = "Converter." + kind
                if r.get("pattern") and kind == "add_record":
                    self.probe("record_with_pattern")
                if kind == "add_record":
                    obj = Record(**r)
                    conv.add_record(obj)
                else:
                    obj = Record(**dict(r, pattern=None))          # (pre-flight: see _mk)
                    conv.add_prefix(r["prefix"], r["uri_prefix"], prefix_synonyms=list(r["prefix_synonyms"]),
                                    uri_prefix_synonyms=list(r["uri_prefix_synonyms"]))
                self._register(obj, route="record" if kind == "add_record" else "add_prefix")
                self.event(kind)
                self.saw_incremental = True
            elif kind == "merge_piece":
                site = "Converter." + op["via"] + "(merge)"
                known_prefix = any(v == op["prefix"] for v in self.owners.owners.values())
                if not known_prefix:
                    # its head was removed by minimisation: nothing to merge into
                    self.event("merge_piece_skipped")
                    return {"skipped": True}
                # a piece carrying one more URI prefix for an already delivered record; it finds its
                # record through the canonical CURIE prefix, through a CURIE-prefix synonym, or only
                # through the record's canonical URI prefix (then under a CURIE prefix of its own)
                carrier = op.get("carrier", "canonical")
                if carrier == "synonym" and op.get("carrier_prefix") is not None:
                    pr, up, ups = op["carrier_prefix"], op["uri_prefix"], []
                elif carrier == "via_uri" and op.get("anchor_uri") in self.owners.owners:
                    pr, up, ups = "piece" + str(self.steps), op["anchor_uri"], [op["uri_prefix"]]
                elif carrier == "restated" and op.get("anchor_uri") in self.owners.owners:
                    # the record restated under its own canonical CURIE prefix AND canonical URI prefix,
                    # bringing one more URI prefix as a synonym (known on both sides, new only in the synonyms)
                    pr, up, ups = op["prefix"], op["anchor_uri"], [op["uri_prefix"]]
                else:
                    pr, up, ups = op["prefix"], op["uri_prefix"], []
                # the piece must find exactly its record through what was really delivered (a carrier synonym
                # that a Record validator dropped was never registered: the piece would become a record of its own)
                found = {self.names.get(pr)} | {self.owners.owners.get(u) for u in [up, *ups]}
                found.discard(None)
                if found != {op["prefix"]}:
                    self.event("merge_piece_skipped")
                    return {"skipped": True}
                self.probe("piece_carrier_" + carrier)
                if op.get("into_loaded_record"):
                    self.probe("piece_into_loaded_record")
                if op["via"] == "add_record":
                    piece = Record(prefix=pr, uri_prefix=up, uri_prefix_synonyms=ups, pattern=op.get("pattern"))
                    conv.add_record(piece, merge=True)
                    if op.get("pattern"):
                        self.probe("piece_with_pattern")
                else:
                    piece = Record(prefix=pr, uri_prefix=up, uri_prefix_synonyms=list(ups))
                    conv.add_prefix(pr, up, uri_prefix_synonyms=ups, merge=True)
                # every URI prefix the piece Record holds now belongs to the record it was merged into
                self._register(piece, owner=op["prefix"], route="record" if op["via"] == "add_record" else "add_prefix")
                self.probe("split_delivery")
                self.event("merge_piece")
                self.saw_incremental = True
            elif kind in ("dup", "clash"):
                r = op["record"]
                site = "Converter." + op["via"] + "(" + kind + ")"
                if kind == "clash":
                    delivered = r["uri_prefix_synonyms"][-1] in self.owners.owners
                else:
                    delivered = any(v == r["prefix"] for v in self.owners.owners.values())
                if not delivered:
                    self.event("dup_skipped")
                    return {"skipped": True}
                before = self._answers() if self.observed_now else None
                rejected = False
                try:
                    if op["via"] == "add_record":
                        dobj = Record(**r)
                        conv.add_record(dobj)
                    else:
                        dobj = Record(**dict(r, pattern=None))
                        conv.add_prefix(r["prefix"], r["uri_prefix"], prefix_synonyms=list(r["prefix_synonyms"]),
                                        uri_prefix_synonyms=list(r["uri_prefix_synonyms"]))
                except ValueError:
                    self.fault("duplicate_submission_rejected" if kind == "dup" else "partly_new_submission_rejected")
                    self.probe("dup_rejected" if kind == "dup" else "clash_rejected")
                    rejected = True
                else:
                    # accepted although it matches an existing record: that is C05's business;
                    # here the submission then simply counts as delivered
                    self.event("dup_accepted")
                    self._register(dobj, route="record" if op["via"] == "add_record" else "add_prefix")
                after = self._answers() if self.observed_now else None
                if rejected and self.observed_now and after != before:
                    raise Violation(PROP, "answers_changed_by_rejected_duplicate", site,
                                    {"diff": observe.diff(before, after)})
            else:
                raise ValueError(f"unknown op {kind}")
        if kind == "ctor":
            # the converter as loaded: looked at right away only in the every-step mode
            observed = self.check_every == 1
        elif kind == "chain_parts":
            observed = True
        else:
            observed = getattr(self, "observed_now", True)
        if observed:
            if self.dirty:
                self._catch_up()
            else:
                self._check(site)
        else:
            self.dirty = True
            self.focus = []
            self.unobserved_run = getattr(self, "unobserved_run", 0) + 1
            self.probe("delivery_not_observed")
            if self.unobserved_run == 65:
                self.probe("more_than_64_deliveries_between_two_looks")
            if self.unobserved_run == 257:
                self.probe("more_than_256_deliveries_between_two_looks")
        self.note_state(sorted(self.owners.owners.items()), kind, None)
        return {"owners": len(self.owners.owners), "observed": observed}

    def _final_answers(self):
        return {"delimiter": self.conv.delimiter, "answers": self._answers(), "owners": dict(self.owners.owners)}

    def _answers(self):
        conv = self.conv
        out = {}
        for u in self.probes:
            out[u] = [
                observe.call(conv.parse_uri, u, return_none=True),
                observe.call(conv.compress, u),
                observe.call(conv.is_uri, u),
            ]
        return out

    def _check(self, site):
        conv = self.conv
        owners = self.owners
        # "registered" means: a URI prefix of a record OF THE CONVERTER. The owner map the harness keeps from
        # what it delivered is compared with the converter's own records first. Where the library made
        # something else of a submission than the harness assumed (which name a loader makes canonical, a
        # name the Record class drops from a synonym list) the lookups are judged against the records and
        # the schedule is no longer compared with others. A delivered URI prefix that is simply MISSING from
        # the records - and that the Record class would have kept - is a lost delivery (with a dict-shaped
        # loader: an effect of the order of supply): then nothing is re-based and the lookups are judged
        # against what was delivered. Never the case on the unchanged tree.
        rec_map = {}
        for r in conv.records:
            for u in [r.uri_prefix, *r.uri_prefix_synonyms]:
                rec_map.setdefault(u, r.prefix)
        if rec_map != owners.owners:
            lost = [u for u in owners.owners if u not in rec_map and not self._record_class_drops(u)
                    and not self._route_drops(u, self.route_of.get(u, "record"))]
            if lost:
                self.event("delivered_uri_prefix_missing_from_records")
            else:
                self.event("owner_map_rebased_on_the_converters_records")
                self.tainted = True
                owners.owners = rec_map
        if len(owners.owners) >= 40:
            self.probe("large_owner_map")
        if len(owners.owners) > 256:
            self.probe("more_than_256_uri_prefixes")
        delim = conv.delimiter
        if self.delimiter_given is not None and site not in DERIVED_SITES:
            # a converter must keep the delimiter it was constructed with through every incremental add
            # (derived views are built with the default delimiter by the library: not judged here)
            delim = self.delimiter_given
        if len(delim) > 1:
            self.probe("multi_char_delimiter")
        keys = list(owners.owners)
        if "" in owners.owners:
            self.probe("empty_uri_prefix_registered")
        for p in keys:
            for q in keys:
                if p != q and q.startswith(p):
                    self.saw_nested = True
                    if owners.owners[p] != owners.owners[q]:
                        self.probe("synonym_nested_in_other_record")
                    break
        focus, self.focus = self.focus, []
        for u in focus + self.probes + (self.flood if self.conv is not None and site not in DERIVED_SITES else []):
            want = owners.parse(u)
            nm = len(owners.matching(u))
            if nm >= 2:
                self.saw_multi = True
                self.probe("nested_match")
            if want is not None:
                lp = owners.longest(u)
                if lp == u:
                    self.probe("probe_equals_prefix")
                if any(ord(ch) > 0xFFFF for ch in u):
                    self.probe("non_bmp_probe_matched")
            elif any(p[:-1] == u for p in keys if p):
                self.probe("probe_one_short")
            # the three observables are asked in an order that rotates from one look to the next: WHICH of them
            # meets a new state first must not matter
            order = ROTATIONS[(self.n_looks + self.n_probe_checks) % 6]
            raw = {}
            for name in order:
                if name == "parse_uri":
                    raw[name] = observe.call(conv.parse_uri, u, return_none=True)
                elif name == "compress":
                    raw[name] = observe.call(conv.compress, u)
                else:
                    raw[name] = observe.call(conv.is_uri, u)
            got = raw["parse_uri"]
            exp = ["ok", None if want is None else [want[0], want[1]]]
            if got != exp:
                raise Violation(PROP, "parse_uri_mismatch", site,
                                {"uri": u, "got": got, "expected": exp, "asked_in_order": list(order),
                                 "owners": sorted(owners.owners.items())})
            gotc = raw["compress"]
            expc = ["ok", None if want is None else want[0] + delim + want[1]]
            if gotc != expc:
                raise Violation(PROP, "compress_mismatch", site,
                                {"uri": u, "got": gotc, "expected": expc, "delimiter": delim, "asked_in_order": list(order),
                                 "owners": sorted(owners.owners.items())})
            if raw["is_uri"] != ["ok", want is not None]:
                raise Violation(PROP, "is_uri_mismatch", site,
                                {"uri": u, "got": raw["is_uri"], "expected": want is not None, "asked_in_order": list(order)})
            if want is None and (self.n_probe_checks % 4 == 0):
                # on a MISS the other flag spellings are asked too (what they return is C08's business) - and
                # then the plain questions again: asking in another mode must not change the plain answers
                for kw in ({"passthrough": True}, {"strict": True}, {"strict": True, "passthrough": True}):
                    observe.call(conv.compress, u, **kw)
                observe.call(conv.parse_uri, u, strict=True)
                again = [observe.call(conv.compress, u), observe.call(conv.is_uri, u), observe.call(conv.parse_uri, u, return_none=True)]
                if again != [["ok", None], ["ok", False], ["ok", None]]:
                    raise Violation(PROP, "compress_mismatch" if again[0] != ["ok", None] else ("is_uri_mismatch" if again[1] != ["ok", False] else "parse_uri_mismatch"),
                                    site, {"uri": u, "after_asking_in_other_modes": True, "got": again, "expected": "a miss"})
                self.probe("flag_variants_on_miss_then_plain_again")
            if want is not None and (self.n_probe_checks % 4 == 0):
                # the same question with the other flags / spellings (values on hits only: how a miss is
                # reported in each mode is C08's business)
                variants = {
                    "compress(strict=True)": observe.call(conv.compress, u, strict=True),
                    "compress(passthrough=True)": observe.call(conv.compress, u, passthrough=True),
                    "compress(strict=True, passthrough=True)": observe.call(conv.compress, u, strict=True, passthrough=True),
                    "compress_strict": observe.call(conv.compress_strict, u),
                }
                for name, gv in variants.items():
                    if gv != expc:
                        raise Violation(PROP, "compress_mismatch", site,
                                        {"uri": u, "call": name, "got": gv, "expected": expc, "delimiter": delim})
                gs = observe.call(conv.parse_uri, u, strict=True)
                if gs != exp:
                    raise Violation(PROP, "parse_uri_mismatch", site,
                                    {"uri": u, "call": "parse_uri(strict=True)", "got": gs, "expected": exp})
                self.probe("flag_variants_on_hit")
            self.n_probe_checks += 1
        self.n_looks += 1

    def finish(self):
        self._catch_up()

    def nontrivial(self):
        return self.saw_nested and self.saw_multi and self.saw_incremental
