"""C16 - bulk operations equal element-wise scalar calls and fail atomically.

A file-fault machine.  One run = one converter, one table, one flag set:
the file operation is run fault-free, and then once per row position k with a
failing cell injected at row k (every position of the first failing row is
enumerated); pandas operations ride on the same table.  The cell-level
expectation is the scalar method of the same real converter with the same
flags - literally what the property says.
"""
from __future__ import annotations

import copy
import csv
import io
import os
import shutil
import tempfile
from pathlib import Path

from .. import observe, tokens
from ..core import Machine, Violation
from .c05 import gen_valid_records

PROP = "C16"
BAD = "@@BADBYTES@@"          # replaced by bytes that are invalid UTF-8 when the file is written
BAD_BYTES = b"\xff\xfe\xc3"
FILE_DEFAULTS = {"sep": None, "header": True, "strict": False, "passthrough": False, "ambiguous": False}
FIELD_LIMIT = 4096


def _read_table(text, delim):
    """The harness's OWN reading of a table (self-check of what it wrote, the file as the library left it).
    The lowered csv field limit is a fault injected into the LIBRARY's reading; the harness reads without
    it - a library that copes with over-long fields writes output the harness must be able to read."""
    csv.field_size_limit(1 << 30)
    try:
        return list(csv.reader(io.StringIO(text, newline=""), delimiter=delim))
    finally:
        csv.field_size_limit(FIELD_LIMIT)
FAULT_KINDS = ["strict_unconvertible", "no_delimiter", "missing_cell", "blank_row", "undecodable_bytes",
               "oversize_field"]
SEPS = [None, None, ",", ";", "|", "\t"]
NASTY = ["", " ", "x", "a b", " lead", "trail ", "\"", "q\"uo\"te", "'", "l1\nl2", "cr\rx", "crlf\r\ny",
         # blank physical lines INSIDE a quoted cell (what a line-wise pre-filter would eat)
         "p1\n\np2", "p1\r\n\r\np2", "\n\nlead", "trail\n\n", "a\r\rb",
         "é", "\U0001d11e", "tab\there", "com,ma", "semi;colon", "pi|pe", "\"\"", "end\n", "\\", "#c", "0",
         # characters str.splitlines() treats as line boundaries but the csv module does not
         "ls\u2028x", "vt\x0bx", "ff\x0cx", "nel\x85x", "fs\x1cx",
         # strings that data tools like to read as missing values or numbers
         "nan", "NA", "None", "<NA>", "NULL", "1", "1.0", "-", "\ufeffbom"]
PD_FUNCS = ["pd_compress", "pd_expand", "pd_standardize_prefix", "pd_standardize_curie", "pd_standardize_uri"]


def scalar_for(conv, func, ambiguous):
    if func in ("file_compress", "pd_compress"):
        return conv.compress_or_standardize if ambiguous else conv.compress
    if func in ("file_expand", "pd_expand"):
        return conv.expand_or_standardize if ambiguous else conv.expand
    return {"pd_standardize_prefix": conv.standardize_prefix, "pd_standardize_curie": conv.standardize_curie,
            "pd_standardize_uri": conv.standardize_uri}[func]


class C16Machine(Machine):
    PROP = PROP
    EXPECTED_PROBES = (
        ["fault_fired:" + k for k in FAULT_KINDS]
        + ["fault_pos:first", "fault_pos:middle", "fault_pos:last", "header", "no_header", "custom_sep",
           "cell_with_sep", "cell_with_quote", "cell_with_newline", "cell_with_cr", "ambiguous_cell_both",
           "target_column_last", "str_path", "pd_target_column", "later_row_also_fails",
           "result_missing_empty_cell", "target_cell_changed", "pd_missing_is_na", "pd_strict_raised",
           "zero_rows", "fault_in_other_column", "ambiguous_mode_converted_cell", "file_larger_than_8k", "table_ge_40_rows",
           "eol_crlf", "eol_lf", "eol_mixed", "eol_cr", "eol_mixed_cr", "table_on_another_file_system_than_the_temp_dir", "no_final_line_terminator", "sep_explicit_tab", "relative_path", "file_name_varied", "file_name_with_temp_or_backup_suffix", "same_path_again_after_failure",
           "same_path_again_after_success", "pd_target_is_source", "pd_dtype_object", "pd_dtype_string", "pd_dtype_category", "pd_category_with_unused_categories", "converter_subclass_with_identifier_hook", "pd_int_labels", "pd_int_labels_not_positions", "file_flags_left_to_defaults", "pd_flags_left_to_defaults", "cell_convertible_only_after_extension", "fault_in_header", "cell_with_unicode_line_boundary",
           "pd_index_custom", "pd_index_reversed", "pd_index_offset", "pd_index_duplicated", "pd_index_sliced",
           "pd_index_named", "pd_index_multi", "pd_index_shuffled_dup"]
    )

    @classmethod
    def draw_config(cls, rng, tier):
        deep = tier == "thorough" and rng.random() < 0.3
        cfg = {
            "max_ops": 16 if not deep else 40,
            "deep": deep,
            "delimiter": rng.choice([":", ":", ":", "/", "::", "_", "|"]),
            "curie_pool": tokens.pick_pool(rng, tokens.CURIE_PREFIXES, [], 4, 8),
            "uri_pool": tokens.pick_pool(rng, tokens.URI_PREFIXES, [], 4, 9),
            "n_records": rng.randint(2, 5),
            "width": rng.randint(1, 4) if rng.random() < 0.95 else rng.choice([7, 12]),
            "n_rows": rng.choice([0, 1, 2, 3, 4, 5, 6, 8, 10]) if not deep else rng.choice([12, 16, 24, 32]),
            "header": rng.random() < 0.5,
            "sep": rng.choice(SEPS),
            "func": rng.choice(["file_compress", "file_expand"]),
            "strict": rng.random() < 0.3,
            "passthrough": rng.random() < 0.5,
            "ambiguous": rng.random() < 0.4,
            "path_kind": rng.choice(["str", "path", "str", "path", "relative"]),
            # shape of the input file: how its lines end, and whether the last line is terminated
            # where the table lives: the system temp directory, or (when there is one) a directory on ANOTHER
            # file system - what "write a scratch file and rename it over the original" must cope with
            "where": rng.choice(["tmp", "tmp", "tmp", "other_fs"]),
            "file_name": rng.choice([None, None, None, "t.tsv", "t.csv", "t", "t.tmp", "t.bak", "t.tsv.tmp", "t.tsv.bak",
                                     ".t", "a.b.tsv", "with space.tsv", "sub/t.tsv", "t.new", "t.old", "t.tsv~"]),
            "eol": rng.choice(["crlf", "crlf", "lf", "lf", "mixed", "cr", "mixed_cr"]),
            "final_eol": rng.random() < 0.8,
            "p_nasty": rng.choice([0.2, 0.5, 0.9]),
            "n_pd": rng.choice([0, 1, 2, 3]),
            "fault_kinds": rng.sample(FAULT_KINDS, rng.randint(1, len(FAULT_KINDS))),
            # the converter is extended (add_prefix / add_record, merge or append) between bulk operations,
            # and the same tables are converted before and after: bulk results must follow the scalar ones
            "extend": rng.random() < 0.3,
            # a converter of a subclass that overrides the documented standardize_identifier hook
            "hooked": rng.random() < 0.15,
        }
        if rng.random() < (0.03 if tier == "quick" else 0.06):
            # rare large table: crosses the 8 KiB text-buffer size and any plausible chunk size
            cfg["large"] = True
            cfg["n_records"] = rng.choice([6, 12, 17, 33, 40])          # a bigger converter, too
            cfg["curie_pool"] = cfg["curie_pool"] + tokens.synthetic_curie_prefixes(90)
            cfg["uri_pool"] = cfg["uri_pool"] + tokens.synthetic_uri_prefixes(90)
            # sizes sit on and next to the usual batch / buffer boundaries
            cfg["n_rows"] = rng.choice([31, 32, 33, 40, 50, 63, 64, 65, 99, 100, 101, 127, 128, 129, 150, 192, 256, 257])
            cfg["max_ops"] = cfg["n_rows"] + 8
            cfg["width"] = max(cfg["width"], 2)
        cfg["column"] = rng.randrange(cfg["width"])
        cfg["max_ops"] += 6
        return cfg

    def __init__(self, config, known=frozenset()):
        super().__init__(config, known)
        from ..env import load_curies

        self.curies = load_curies()
        # environment knob: a small csv field limit keeps the oversize-field fault cheap
        csv.field_size_limit(FIELD_LIMIT)
        self.conv = None
        self.dir = None
        self.plan = None
        self.dir2 = None
        self.cur_dir = None
        self.file_no = 0
        self.ff_nontrivial = False
        self.fault_nontrivial = False
        self.extended = False

    def close(self):
        for d in (self.dir, getattr(self, "dir2", None)):
            if d and os.path.isdir(d):
                shutil.rmtree(d, ignore_errors=True)
        self.dir = None
        self.dir2 = None

    # ----------------------------------------------------------- generation
    def gen_op(self, rng):
        if getattr(self, "setup_failed", False):
            return None
        if self.conv is None:
            cfg = self.config
            recs = gen_valid_records(rng, cfg["curie_pool"], cfg["uri_pool"], cfg["n_records"], with_pattern=False)
            # a string that is both a CURIE and a URI of the same converter
            if rng.random() < 0.5:
                d = cfg["delimiter"]
                recs.append({"prefix": "amb", "uri_prefix": "amb" + d, "prefix_synonyms": [], "uri_prefix_synonyms": [],
                             "pattern": None})
            return {"op": "setup", "records": recs, "delimiter": cfg["delimiter"], "hooked": bool(cfg.get("hooked"))}
        if self.plan is None:
            self.plan = self._plan(rng)
        if not self.plan:
            return None
        return self.plan.pop(0)

    def _cell(self, rng, func, cls_):
        conv = self.conv
        d = conv.delimiter
        recs = conv.records
        r = rng.choice(recs)
        ident = rng.choice(["1", "x", "0001", "a/b", "1" + d + "2", "é"])
        compressing = func in ("file_compress", "pd_compress", "pd_standardize_uri")
        if func == "pd_standardize_prefix":
            return {"canon": r.prefix, "syn": rng.choice(r.prefix_synonyms or [r.prefix]), "unknown": "zz",
                    "both": r.prefix, "empty": "", "nodelim": "zz", "other_kind": r.uri_prefix,
                    "banana": r.prefix, "invalid_id": r.prefix,
                    "awkward": rng.choice([r.prefix + "\n", "nan", "NA", "None", r.prefix + " "])}[cls_]
        if cls_ == "canon":
            return (r.uri_prefix + ident) if compressing else (r.prefix + d + ident)
        if cls_ == "syn":
            if compressing:
                return rng.choice(r.uri_prefix_synonyms or [r.uri_prefix]) + ident
            return rng.choice(r.prefix_synonyms or [r.prefix]) + d + ident
        if cls_ == "other_kind":
            # a CURIE where URIs are expected and vice versa: what ambiguous=True is for
            if compressing:
                return rng.choice(r.prefix_synonyms or [r.prefix]) + d + ident
            return rng.choice(r.uri_prefix_synonyms or [r.uri_prefix]) + ident
        if cls_ == "unknown":
            return ("http://unknown.example/" + ident) if compressing else ("zz" + d + ident)
        if cls_ == "banana":
            return r.prefix + d + r.prefix + d + "1"
        if cls_ == "invalid_id":
            return r.prefix + d + "bad" + ident
        if cls_ == "both":
            return "amb" + d + ident
        if cls_ == "empty":
            return ""
        if cls_ == "nodelim":
            return "nodelimiterhere"
        if cls_ == "awkward":
            # a convertible cell whose identifier needs CSV quoting or ends in a line break, or a cell
            # that data tools read as a missing value
            base = (r.uri_prefix + "1") if compressing else (r.prefix + d + "1")
            return rng.choice([base + "\n", base + "\r\n", base + "\"q", base + "\tx", base + ",x", base + " ",
                               base + "\n\nx", base + "\r\n\r\n",
                               "nan", "NA", "None", "<NA>", "NULL"])
        return ""

    def _table(self, rng, func):
        cfg = self.config
        width, n = cfg["width"], cfg["n_rows"]
        col = cfg["column"]
        rows = []
        for _ in range(n):
            row = []
            for c in range(width):
                if c == col:
                    cls_ = rng.choice(["canon", "canon", "syn", "unknown", "both", "empty", "nodelim", "other_kind", "awkward"]
                                      + (["banana", "banana", "invalid_id", "invalid_id"] if getattr(self, "hooked", False) else []))
                    row.append(self._cell(rng, func, cls_))
                else:
                    cell = rng.choice(NASTY) if rng.random() < cfg["p_nasty"] else "v" + str(rng.randint(0, 9))
                    if cfg.get("large"):
                        cell += "." * 70      # make the file cross the 8 KiB text buffer
                    row.append(cell)
            rows.append(row)
        if cfg.get("extend") and self.conv.records:
            # cells that only become convertible once the converter has been extended
            d = self.conv.delimiter
            compressing = func in ("file_compress", "pd_compress", "pd_standardize_uri")
            for i in range(len(rows)):
                if rng.random() < 0.3:
                    ident = rng.choice(["1", "x", "0001"])
                    if func == "pd_standardize_prefix":
                        rows[i][col] = rng.choice(["fut1", "futnew"])
                    elif compressing:
                        rows[i][col] = rng.choice(["fut:1/", "fut:new/"]) + ident
                    else:
                        rows[i][col] = rng.choice(["fut1", "futnew"]) + d + ident
        # near-duplicates of earlier target cells (case, surrounding blanks): what a badly keyed
        # per-cell cache or a normalising "optimisation" would confuse
        for i in range(1, len(rows)):
            if rng.random() < 0.15:
                src = rows[rng.randrange(i)][col]
                rows[i][col] = rng.choice([src + " ", " " + src, src.swapcase(), src.upper(), src.lower(), src])
        hdr = None
        if cfg["header"]:
            hdr = [(rng.choice(NASTY) if rng.random() < cfg["p_nasty"] / 2 else "h" + str(c)) for c in range(width)]
        return hdr, rows

    def _raises(self, func, cell, strict, passthrough, ambiguous):
        f = scalar_for(self.conv, func, ambiguous)
        try:
            f(cell, strict=strict, passthrough=passthrough)
        except Exception:  # noqa: BLE001
            return True
        return False

    def _safe_cell(self, rng, func):
        return self._cell(rng, func, rng.choice(["canon", "syn"]))

    def _plan(self, rng):
        cfg = self.config
        func = cfg["func"]
        st, pt, amb = cfg["strict"], cfg["passthrough"], cfg["ambiguous"]
        col = cfg["column"]
        hdr, rows = self._table(rng, func)
        base = {"op": "file", "func": func, "header": cfg["header"], "hdr": hdr, "column": col, "sep": cfg["sep"],
                "strict": st, "passthrough": pt, "ambiguous": amb, "path_kind": cfg["path_kind"], "fault": None,
                "eol": cfg["eol"], "final_eol": cfg["final_eol"], "omit_defaults": rng.random() < 0.5,
                "file_name": cfg["file_name"], "where": cfg.get("where", "tmp")}
        plan = []
        # fault-free configuration: no cell raises under the chosen flags
        ff_rows = copy.deepcopy(rows)
        for row in ff_rows:
            tries = 0
            while self._raises(func, row[col], st, pt, amb) and tries < 5:
                row[col] = self._safe_cell(rng, func)
                tries += 1
        first_op = dict(copy.deepcopy(base), rows=ff_rows)
        if rng.random() < 0.3:
            first_op["then"] = {"strict": False, "passthrough": rng.random() < 0.5}
        plan.append(first_op)
        # fault-injecting configuration: every row position k
        kinds = list(cfg["fault_kinds"])
        for k in range(len(rows)):
            kind = kinds[k % len(kinds)] if rng.random() < 0.7 else rng.choice(FAULT_KINDS)
            op = dict(copy.deepcopy(base), rows=copy.deepcopy(rows))
            frows = op["rows"]
            if kind == "strict_unconvertible":
                op["strict"] = True
            if kind == "no_delimiter":
                op["func"] = "file_expand"
                op["ambiguous"] = False
            f2 = op["func"]
            if f2 != func:
                # other function: regenerate the target cells for it
                for row in frows:
                    row[col] = self._cell(rng, f2, rng.choice(["canon", "syn", "unknown", "both"]))
            for i in range(k):
                tries = 0
                while self._raises(f2, frows[i][col], op["strict"], op["passthrough"], op["ambiguous"]) and tries < 5:
                    frows[i][col] = self._safe_cell(rng, f2)
                    tries += 1
            fcol = col
            if kind == "strict_unconvertible":
                frows[k][col] = self._cell(rng, f2, "unknown")
            elif kind == "no_delimiter":
                frows[k][col] = rng.choice(["nodelimiterhere", "", "abc"])
            elif kind == "missing_cell":
                frows[k] = frows[k][:col]
            elif kind == "blank_row":
                frows[k] = []
            elif kind == "undecodable_bytes":
                fcol = rng.randrange(len(frows[k]))
                frows[k][fcol] = "b" + BAD + "d"
            elif kind == "oversize_field":
                fcol = rng.randrange(len(frows[k]))
                frows[k][fcol] = "L" * (FIELD_LIMIT + 1 + rng.randint(0, 3))
            op["fault"] = {"kind": kind, "row": k, "col": fcol}
            if kind in ("strict_unconvertible", "no_delimiter") and rng.random() < 0.4:
                # retry on the same path after the failure, with more lenient flags
                op["then"] = {"strict": False, "passthrough": rng.random() < 0.5, "func": func, "ambiguous": amb}
            plan.append(op)
        if cfg["header"] and hdr:
            # a reader-level fault in the HEADER row (nothing has been converted yet: still atomic)
            kind = rng.choice(["undecodable_bytes", "oversize_field"])
            op = dict(copy.deepcopy(base), rows=copy.deepcopy(rows))
            j = rng.randrange(len(op["hdr"]))
            op["hdr"][j] = ("b" + BAD + "d") if kind == "undecodable_bytes" else "L" * (FIELD_LIMIT + 2)
            op["fault"] = {"kind": kind, "row": -1, "col": j}
            plan.append(op)
        pd_ops = []
        # pandas operations on the same kind of table (fault-free equivalence, strict raising)
        for _ in range(cfg["n_pd"]):
            pf = rng.choice(PD_FUNCS)
            _, prow = self._table(rng, pf)
            pamb = rng.random() < 0.4
            if pamb and pf in ("pd_compress", "pd_expand"):
                # ambiguous mode is about cells of the other kind: make sure some are there
                for row in prow:
                    if rng.random() < 0.4:
                        row[col] = self._cell(rng, pf, "other_kind")
            names = ["c" + str(i) for i in range(cfg["width"])]
            if rng.random() < 0.35:
                # integer column labels - equal to the positions, reversed, or unrelated to them
                w = cfg["width"]
                names = rng.choice([list(range(w)), list(range(w - 1, -1, -1)), [10 * (i + 1) for i in range(w)]])
            tc = rng.choice([None, None, "new", "other", "same"])
            target = None
            if tc == "same":
                target = names[col]        # naming the source column as target is the same as leaving it out
            if tc == "new":
                target = "t_new" if isinstance(names[0], str) else 99
            elif tc == "other" and cfg["width"] > 1:
                target = names[(col + 1) % cfg["width"]]
            pd_ops.append({"op": "pd", "func": pf, "names": names, "rows": prow, "column": names[col],
                         "target_column": target, "strict": rng.random() < 0.3, "passthrough": rng.random() < 0.5,
                         "ambiguous": pamb, "omit_defaults": rng.random() < 0.5,
                         "dtype": rng.choice(["default", "default", "object", "string", "category"]),
                         "unused_categories": rng.random() < 0.5,
                         "index": rng.choice(["range", "range", "range", "custom", "reversed", "offset", "duplicated", "sliced",
                                              "named", "multi", "shuffled_dup"])})
        plan.extend(pd_ops)
        if cfg.get("extend") and self.conv.records:
            r0 = rng.choice(self.conv.records)
            x = rng.random()
            if x < 0.3:
                # a URI prefix NESTED inside a registered one (a registered prefix plus the head of an identifier
                # the tables use): cells that were convertible before now belong to another record
                r1 = rng.choice(self.conv.records)
                nested = rng.choice([r1.uri_prefix, *r1.uri_prefix_synonyms]) + rng.choice(["0", "1", "x", "a/", "00"])
                if rng.random() < 0.5:
                    ext = {"prefix": "futn", "uri_prefix": nested, "prefix_synonyms": [], "uri_prefix_synonyms": [], "merge": False}
                else:
                    ext = {"prefix": r0.prefix, "uri_prefix": r0.uri_prefix, "prefix_synonyms": [],
                           "uri_prefix_synonyms": [nested], "merge": True}
            elif x < 0.8:
                # merge new names into an existing record
                ext = {"prefix": r0.prefix, "uri_prefix": r0.uri_prefix, "prefix_synonyms": ["fut1"],
                       "uri_prefix_synonyms": ["fut:1/"], "merge": True}
            else:
                ext = {"prefix": "futnew", "uri_prefix": "fut:new/", "prefix_synonyms": [], "uri_prefix_synonyms": [],
                       "merge": False}
            plan.append({"op": "extend", "via": rng.choice(["add_prefix", "add_record"]), "record": ext})
            # the same fault-free table and the same frames again, now that more cells are convertible
            plan.append(copy.deepcopy(plan[0]))
            for po in pd_ops:
                plan.append(copy.deepcopy(po))
        return plan

    @staticmethod
    def simplify_op(op):
        if op["op"] in ("file", "pd"):
            rows = op["rows"]
            frow = (op.get("fault") or {}).get("row")
            for i in range(len(rows) - 1, -1, -1):
                c = copy.deepcopy(op)
                del c["rows"][i]
                if frow is not None and c.get("fault"):
                    if i < frow:
                        c["fault"]["row"] = frow - 1
                    elif i == frow:
                        continue
                yield c
            for i, row in enumerate(rows):
                for j, cell in enumerate(row):
                    if op["op"] == "file" and j == op["column"]:
                        continue
                    if op["op"] == "pd" and op["names"][j] == op["column"]:
                        continue
                    if cell not in ("v", ""):
                        c = copy.deepcopy(op)
                        c["rows"][i][j] = "v"
                        yield c
            if op["op"] == "file":
                if op.get("hdr"):
                    for j, cell in enumerate(op["hdr"]):
                        if cell != "h":
                            c = copy.deepcopy(op)
                            c["hdr"][j] = "h"
                            yield c
                if op.get("sep") is not None:
                    yield dict(copy.deepcopy(op), sep=None)
                if op.get("path_kind") != "path":
                    yield dict(copy.deepcopy(op), path_kind="path")
                if op.get("file_name"):
                    yield dict(copy.deepcopy(op), file_name=None)
                if op.get("then"):
                    yield dict(copy.deepcopy(op), then=None)
                if op.get("eol", "crlf") != "crlf":
                    yield dict(copy.deepcopy(op), eol="crlf")
                if not op.get("final_eol", True):
                    yield dict(copy.deepcopy(op), final_eol=True)
                for flag in ("passthrough", "ambiguous", "strict"):
                    if op.get(flag):
                        yield dict(copy.deepcopy(op), **{flag: False})
        if op["op"] == "setup":
            for i in range(len(op["records"])):
                if len(op["records"]) > 1:
                    c = copy.deepcopy(op)
                    del c["records"][i]
                    yield c
            for i, r in enumerate(op["records"]):
                for key in ("uri_prefix_synonyms", "prefix_synonyms"):
                    for j in range(len(r[key])):
                        c = copy.deepcopy(op)
                        del c["records"][i][key][j]
                        yield c

    # ------------------------------------------------------------ execution
    def apply(self, op):
        c = self.curies
        if op["op"] == "setup":
            cls = c.Converter
            if op.get("hooked"):
                # "for all strict converters": also one of a SUBCLASS that overrides the documented hook
                # standardize_identifier (strip a redundant "<prefix><delimiter>", reject some identifiers) -
                # the bulk functions must go through the same overridable scalar methods
                class Hooked(c.Converter):
                    def standardize_identifier(self, standard_prefix, identifier):      # (the documented names)
                        ident = identifier.removeprefix(standard_prefix + self.delimiter)
                        return None if ident.startswith("bad") else ident

                cls = Hooked
                self.probe("converter_subclass_with_identifier_hook")
            self.hooked = bool(op.get("hooked"))
            objs = []
            for r in op["records"]:
                try:
                    objs.append(c.Record(**r))
                except Exception:  # noqa: BLE001 - which records exist is not this property's business
                    self.event("record_not_constructible")
            if not objs:
                # every drawn record was refused by the Record class: a plain record instead
                try:
                    objs.append(c.Record(prefix="a", uri_prefix="http://x.org/a/"))
                except Exception:  # noqa: BLE001
                    self.setup_failed = True
                    return {"records": 0}
            try:
                self.conv = cls(objs, delimiter=op.get("delimiter", ":"))
            except ValueError:
                # the constructor refuses this record set (say, a CURIE prefix that contains the delimiter):
                # "for all strict converters" - this is none. The largest prefix of the list that it takes.
                self.event("record_set_refused_by_constructor")
                self.conv = None
                for n in range(len(objs) - 1, -1, -1):
                    try:
                        self.conv = cls(objs[:n], delimiter=op.get("delimiter", ":"))
                        break
                    except ValueError:
                        continue
                if self.conv is None or not self.conv.records:
                    self.conv = None
                    self.setup_failed = True
                    return {"records": 0}
            self.dir = tempfile.mkdtemp(prefix="verif-c16-")
            self.event("setup")
            return {"records": len(op["records"])}
        if self.conv is None:
            return {"skipped": "no converter"}
        if op["op"] == "extend":
            r = op["record"]
            try:
                if op["via"] == "add_record":
                    self.conv.add_record(self.curies.Record(prefix=r["prefix"], uri_prefix=r["uri_prefix"],
                                                            prefix_synonyms=r["prefix_synonyms"],
                                                            uri_prefix_synonyms=r["uri_prefix_synonyms"]), merge=r["merge"])
                else:
                    self.conv.add_prefix(r["prefix"], r["uri_prefix"], prefix_synonyms=r["prefix_synonyms"],
                                         uri_prefix_synonyms=r["uri_prefix_synonyms"], merge=r["merge"])
            except ValueError:
                self.event("extend_rejected")      # whether an add is accepted is C05's business
                return {"extended": False}
            self.event("extend_" + ("merge" if r["merge"] else "append"))
            self.extended = True
            return {"extended": True}
        if op["op"] == "file":
            return self._file(op)
        if op["op"] == "pd":
            return self._pd(op)
        raise ValueError(op["op"])

    def _materialise(self, op):
        delim = op["sep"] or "\t"
        lines = ([op["hdr"]] if op["header"] else []) + list(op["rows"])
        eol = op.get("eol", "crlf")
        parts = []
        for n, row in enumerate(lines):
            buf = io.StringIO(newline="")
            if eol == "cr":
                term = "\r"               # bare carriage returns end the lines ("CSV (Macintosh)")
            elif eol == "mixed_cr":
                term = ("\r", "\n", "\r\n")[n % 3]
                if term == "\r" and n + 1 < len(lines) and not lines[n + 1]:
                    term = "\r\n"       # (a bare CR followed by a blank line ending in LF would read as one CRLF)
            else:
                term = "\r\n" if eol == "crlf" or (eol == "mixed" and n % 2 == 0) else "\n"
            # always let csv quote with its default terminator (with lineterminator="\n" Python 3.12
            # leaves a bare \r inside a cell unquoted, and the file would denote another table);
            # then swap the terminator of the finished line
            csv.writer(buf, delimiter=delim).writerow(row)
            line = buf.getvalue()
            assert line.endswith("\r\n")
            parts.append(line[:-2] + term)
        text = "".join(parts)
        if not op.get("final_eol", True) and lines and lines[-1]:
            # the last line has no terminator (a blank last row cannot be written that way)
            text = text[:-2] if text.endswith("\r\n") else text[:-1]
        data = text.encode("utf-8")
        if BAD.encode() in data:
            data = data.replace(BAD.encode(), BAD_BYTES)
        self.file_no += 1
        # every file lives in a directory of its own; its NAME is part of the input (suffixes such as
        # .tmp / .bak are what a temp-file or backup scheme would collide with)
        name = op.get("file_name") or f"t{self.file_no}.tsv"
        base = self.dir
        if op.get("where") == "other_fs":
            if self.dir2 is None:
                self.dir2 = observe.scratch_dir("verif-c16-")        # /dev/shm where available
            base = self.dir2
            if os.stat(base).st_dev != os.stat(tempfile.gettempdir()).st_dev:
                self.probe("table_on_another_file_system_than_the_temp_dir")
        self.cur_dir = os.path.join(base, f"d{self.file_no}")
        path = os.path.join(self.cur_dir, name)
        os.makedirs(os.path.dirname(path), exist_ok=True)
        with open(path, "wb") as f:
            f.write(data)
        return path, data

    def _file(self, op):
        hdr = op["hdr"]
        if op["header"] and (hdr is None or len(hdr) == 0):
            return {"skipped": "zero-cell header is not a table with a header row"}
        path, before = self._materialise(op)
        fdir = self.cur_dir
        try:
            out = self._file_core(op, path, before)
            nxt = op.get("then")
            if nxt and os.path.exists(path):
                # a second call on the SAME path (retry after a failure, or converting a converted file
                # again): judged against the table that is on disk right before it
                with open(path, "rb") as f:
                    now = f.read()
                try:
                    table = _read_table(now.decode("utf-8"), op["sep"] or "\t")
                except Exception:  # noqa: BLE001 - e.g. the undecodable-bytes fault is still in the file
                    table = None
                if table is not None and (not op["header"] or table):
                    op2 = dict(copy.deepcopy(op), **nxt)
                    op2["then"] = None
                    op2["fault"] = None
                    op2["hdr"] = table[0] if op["header"] else None
                    op2["rows"] = table[1:] if op["header"] else table
                    self.probe("same_path_again_after_" + ("failure" if out.get("raised") else "success"))
                    out2 = self._file_core(op2, path, now)
                    out = {"first": out, "second": out2}
            return out
        finally:
            shutil.rmtree(fdir, ignore_errors=True)

    def _file_core(self, op, path, before):
        conv = self.conv
        func = op["func"]
        site = func
        col = op["column"]
        st, pt, amb = op["strict"], op["passthrough"], op["ambiguous"]
        hdr, rows = op["hdr"], op["rows"]
        scalar = scalar_for(conv, func, amb)
        csv.field_size_limit(FIELD_LIMIT)       # (whatever an earlier call left behind)
        limit = FIELD_LIMIT
        # harness self-check: the bytes written must denote exactly the intended table
        intended = ([list(hdr)] if op["header"] else []) + [list(r) for r in rows]
        if BAD_BYTES not in before:
            denoted = _read_table(before.decode("utf-8"), op["sep"] or "\t")
            if denoted != intended:
                from ..env import HarnessError
                raise HarnessError(f"materialised file does not denote the intended table: {denoted!r} != {intended!r}")

        # what the scalar method says, row by row
        expected_rows = []
        first_fail = None
        why = None
        reader_level = any(BAD in cell for row in ([hdr] if op["header"] else []) + rows for cell in row)
        for i, row in enumerate(rows):
            if any(len(cell) > limit for cell in row):
                first_fail, why = i, "oversize_field"
                break
            if len(row) <= col:
                first_fail, why = i, ("blank_row" if not row else "missing_cell")
                break
            try:
                v = scalar(row[col], strict=st, passthrough=pt)
            except Exception as e:  # noqa: BLE001
                first_fail, why = i, "scalar_raises:" + type(e).__name__
                break
            new = list(row)
            new[col] = v or ""
            expected_rows.append((new, v, row[col]))
        if op["header"] and any(len(cell) > limit for cell in hdr):
            first_fail, why = -1, "oversize_field"
        if reader_level and first_fail is None:
            first_fail, why = -2, "undecodable_bytes"
        elif reader_level:
            why = why + "+undecodable_bytes"

        # the real call
        if op["path_kind"] == "relative":
            arg = os.path.relpath(path, os.getcwd())
            self.probe("relative_path")
        else:
            arg = path if op["path_kind"] == "str" else Path(path)
        err = None
        try:
            fkw = {"sep": op["sep"], "header": op["header"], "strict": st, "passthrough": pt, "ambiguous": amb}
            if op.get("omit_defaults"):
                # arguments that equal their documented defaults are left out: callers rely on those too
                fkw = {k: v for k, v in fkw.items() if v != FILE_DEFAULTS[k]}
                self.probe("file_flags_left_to_defaults")
            getattr(conv, func)(arg, col, **fkw)
        except Exception as e:  # noqa: BLE001
            err = e
        try:
            with open(path, "rb") as f:
                after = f.read()
        except FileNotFoundError:
            after = None        # the file is gone: the worst way of not being what it was

        self.event(func)
        self.probe("header" if op["header"] else "no_header")
        if op["sep"] is not None:
            self.probe("custom_sep")
        self.probe("eol_" + op.get("eol", "crlf"))
        if not op.get("final_eol", True):
            self.probe("no_final_line_terminator")
        if op["path_kind"] == "str":
            self.probe("str_path")
        if op["sep"] == "\t":
            self.probe("sep_explicit_tab")
        if op.get("file_name"):
            self.probe("file_name_varied")
            if op["file_name"].endswith((".tmp", ".bak", ".new", ".old", "~")):
                self.probe("file_name_with_temp_or_backup_suffix")
        if not rows:
            self.probe("zero_rows")
        if len(before) > 8192:
            self.probe("file_larger_than_8k")
        if len(rows) >= 40:
            self.probe("table_ge_40_rows")
        fault = op.get("fault")

        if after is None:
            raise Violation(PROP, "file_deleted", site,
                            {"exception": type(err).__name__ if err else None, "op": _short(op)})
        if err is not None:
            if after != before:
                raise Violation(PROP, "atomicity", site,
                                {"exception": type(err).__name__, "why": why, "first_failing_row": first_fail,
                                 "before": before[:300].decode("utf-8", "replace"),
                                 "after": after[:300].decode("utf-8", "replace"), "op": _short(op)})
            if first_fail is None:
                raise Violation(PROP, "unexpected_raise", site,
                                {"exception": type(err).__name__, "op": _short(op)})
            kind = fault["kind"] if fault else why
            self.fault(kind)
            self.probe("fault_fired:" + (fault["kind"] if fault else "unplanned"))
            if fault and fault["row"] < 0:
                self.probe("fault_in_header")
            elif fault:
                k, n = fault["row"], len(rows)
                self.probe("fault_pos:" + ("first" if k == 0 else "last" if k == n - 1 else "middle"))
                if k > 0:
                    self.fault_nontrivial = True
                if fault.get("col", col) != col:
                    self.probe("fault_in_other_column")
                for row in rows[k + 1:]:
                    if len(row) <= col or self._raises(func, row[col], st, pt, amb):
                        self.probe("later_row_also_fails")
                        self.fault_nontrivial = True
                        break
            self.note_state(["file", func, "raised", why and why.split(":")[0], first_fail, len(rows)], "file", "raised")
            return {"raised": True, "why": why and why.split(":")[0], "row": first_fail}

        # returned normally
        tolerant = False
        structural = why is not None and not why.startswith("scalar_raises")
        if first_fail is not None and structural:
            # the first failure is not a cell that the scalar method rejects but a malformed piece of the file
            # (blank line, row without the chosen column, over-long field, bytes that are not text): the
            # property does not say that the operation must raise for those. If it goes on, every row that HAS
            # the chosen cell must still be converted as the scalar method says; a row without it must come
            # back as it was (a blank line may also be dropped).
            if reader_level:
                self.event("no_raise_on_undecodable_bytes_not_judged")
                return {"ok": True, "not_judged": "undecodable bytes tolerated by the library"}
            tolerant = True
            expected_rows = []
            for i, row in enumerate(rows):
                if len(row) <= col:
                    expected_rows.append((list(row), None, None))      # (unchanged, no result, no source cell)
                    continue
                try:
                    v = scalar(row[col], strict=st, passthrough=pt)
                except Exception:  # noqa: BLE001 - a later cell that the scalar method rejects: a raise was due
                    tolerant = False
                    break
                new = list(row)
                new[col] = v or ""
                expected_rows.append((new, v, row[col]))
            if tolerant:
                self.event("no_raise_on_" + why.split("+")[0] + "_tolerated")
        if first_fail is not None and not tolerant:
            raise Violation(PROP, "missing_raise", site,
                            {"why": why, "first_failing_row": first_fail, "op": _short(op)})
        try:
            text = after.decode("utf-8")
            got = _read_table(text, op["sep"] or "\t")
        except Exception as e:  # noqa: BLE001
            raise Violation(PROP, "output_unreadable", site, {"exception": type(e).__name__, "op": _short(op)})
        want = ([list(hdr)] if op["header"] else []) + [new for new, _, _ in expected_rows]
        if tolerant and got != want:
            want_without_blanks = [w for w in want if w]
            if got == want_without_blanks:
                want = want_without_blanks         # blank lines dropped: the table's rows are all there
        if got != want:
            kind = "table_mismatch"
            detail = {"op": _short(op)}
            if len(got) != len(want):
                kind = "row_count_or_header"
                detail.update({"got_rows": len(got), "want_rows": len(want)})
            else:
                for i, (g, w) in enumerate(zip(got, want)):
                    if g != w:
                        is_hdr = op["header"] and i == 0
                        if is_hdr:
                            kind = "header_changed"
                        elif len(g) != len(w):
                            kind = "row_shape_changed"
                        else:
                            bad_cols = [j for j in range(len(w)) if g[j] != w[j]]
                            kind = "target_cell_mismatch" if bad_cols == [col] else "other_column_changed"
                        detail.update({"row": i, "got": g, "want": w})
                        break
            raise Violation(PROP, kind, site, detail)
        expected_rows = [t for t in expected_rows if t[2] is not None]       # rows that have the chosen cell
        changed = any(new[col] != old for new, _, old in expected_rows)
        missing = any(v is None for _, v, _ in expected_rows)
        cells = [cell for row in rows for j, cell in enumerate(row) if j != col] + (list(hdr) if op["header"] else [])
        delim = op["sep"] or "\t"
        quoting = False
        for cell in cells:
            if delim in cell:
                self.probe("cell_with_sep")
                quoting = True
            if '"' in cell:
                self.probe("cell_with_quote")
                quoting = True
            if "\n" in cell:
                self.probe("cell_with_newline")
                quoting = True
            if "\r" in cell:
                self.probe("cell_with_cr")
                quoting = True
            if any(ch in cell for ch in "\u2028\x0b\x0c\x85\x1c"):
                self.probe("cell_with_unicode_line_boundary")
        if changed:
            self.probe("target_cell_changed")
        if self.extended and any(v is not None and old.startswith(("fut", conv.delimiter)) is not None and "fut" in old
                                 for _, v, old in expected_rows):
            self.probe("cell_convertible_only_after_extension")
        if missing:
            self.probe("result_missing_empty_cell")
        if any(old.startswith("amb" + conv.delimiter) for _, _, old in expected_rows):
            self.probe("ambiguous_cell_both")
        if amb and any(v is not None and new[col] != old for new, v, old in expected_rows):
            self.probe("ambiguous_mode_converted_cell")
        if rows and col == len(rows[0]) - 1 and col > 0:
            self.probe("target_column_last")
        if changed and quoting:
            self.ff_nontrivial = True
        self.note_state(["file", func, "ok", changed, missing, quoting, len(rows), st, pt, amb], "file", "ok")
        return {"ok": True, "rows": len(rows), "changed": changed, "missing": missing}

    def _pd(self, op):
        import pandas as pd

        conv = self.conv
        func = op["func"]
        site = func
        names = op["names"]
        rows = op["rows"]
        col = op["column"]
        target = op["target_column"]
        st, pt, amb = op["strict"], op["passthrough"], op["ambiguous"]
        if col not in names:
            return {"skipped": "column"}
        ci = names.index(col)
        if isinstance(col, int):
            self.probe("pd_int_labels" if names == list(range(len(names))) else "pd_int_labels_not_positions")
        ik = op.get("index", "range")
        n = len(rows)
        index = {"custom": [f"r{i}" for i in range(n)], "reversed": list(range(n - 1, -1, -1)),
                 "offset": list(range(5, 5 + n)), "duplicated": [i // 2 for i in range(n)]}.get(ik)
        if ik == "named":
            index = pd.Index([f"s{i}" for i in range(n)], name="sample")
        elif ik == "multi":
            index = pd.MultiIndex.from_tuples([(i // 2, f"k{i}") for i in range(n)], names=["grp", None]) if n else None
        elif ik == "shuffled_dup":
            index = [(i * 7) % max(1, n // 2 + 1) for i in range(n)]          # duplicated, not monotonic
        if ik == "sliced":
            # a frame that is a slice of a longer one: its index starts at 2
            pad = [[""] * len(names)] * 2
            df = pd.DataFrame(pad + [list(r) for r in rows], columns=names).iloc[2:]
        else:
            df = pd.DataFrame([list(r) for r in rows], columns=names, index=index)
        if ik != "range":
            self.probe("pd_index_" + ik)
        dt = op.get("dtype", "default")
        if dt != "default" and len(rows):
            # the same string cells under the other dtypes a column of strings comes in: object (every
            # pandas before 3), the nullable "string" dtype, and category (read_csv(dtype="category"))
            if dt == "category" and op.get("unused_categories"):
                # a categorical that was filtered after the cast: it has categories no cell uses,
                # and one of them is not convertible
                extra = pd.DataFrame([[f"unused{j}" for j in range(len(names))]], columns=names,
                                     index=[df.index[-1]] if len(df.index) else None)
                big = pd.concat([df, extra]).astype({c: dt for c in names})
                df = big.iloc[:-1]
                self.probe("pd_category_with_unused_categories")
            else:
                df = df.astype({c: dt for c in names})
            self.probe("pd_dtype_" + dt)
        orig = df.copy(deep=True)
        scalar = scalar_for(conv, func, amb if func in ("pd_compress", "pd_expand") else False)
        expected = []
        first_fail = None
        for i, row in enumerate(rows):
            try:
                expected.append(scalar(row[ci], strict=st, passthrough=pt))
            except Exception as e:  # noqa: BLE001
                first_fail = (i, type(e).__name__)
                break
        kwargs = {"strict": st, "passthrough": pt, "target_column": target}
        if func in ("pd_compress", "pd_expand"):
            kwargs["ambiguous"] = amb
        if op.get("omit_defaults"):
            kwargs = {k: v for k, v in kwargs.items() if not (v is False or v is None)}
            self.probe("pd_flags_left_to_defaults")
        err = None
        try:
            if func in ("pd_compress", "pd_expand"):
                getattr(conv, func)(df, col, **kwargs)
            else:
                getattr(conv, func)(df, column=col, **kwargs)
        except Exception as e:  # noqa: BLE001
            err = e
        self.event(func)
        if err is not None:
            if first_fail is None and isinstance(err, ValueError) and target is not None and target in names and target != col \
                    and list(df.columns) == list(orig.columns) and df.equals(orig):
                # the call asked to OVERWRITE an unrelated existing column with the results; refusing that and
                # leaving the frame as it was keeps "all other columns are preserved" - not a violation
                self.event("pd_overwrite_of_other_column_refused")
                return {"raised": True, "refused_overwrite": True}
            if first_fail is None:
                raise Violation(PROP, "unexpected_raise", site, {"exception": type(err).__name__, "op": _short(op)})
            self.probe("pd_strict_raised")
            self.fault("pd_cell_raises")
            return {"raised": True}
        if first_fail is not None:
            raise Violation(PROP, "missing_raise", site, {"first_failing_row": first_fail[0], "op": _short(op)})
        out_col = col if target is None else target
        if target is not None and target != col:
            self.probe("pd_target_column")
        if target is not None and target == col:
            self.probe("pd_target_is_source")
        # the original columns keep their labels and relative order; a NEW target column appears exactly
        # once - where it is put (pandas appends it; a library may insert it next to its source) is not stated
        new_target = target is not None and target not in names
        cols = list(df.columns)
        kept = [x for x in cols if not (new_target and x == target)]
        n_new = sum(1 for x in cols if x == target) if new_target else 0
        if new_target and not rows and n_new == 0:
            self.event("pd_no_rows_new_target_column_not_created")       # nothing to put into it: not stated
            n_new = 1
        if kept != list(names) or (new_target and n_new != 1):
            raise Violation(PROP, "columns_changed", site,
                            {"got": [str(x) for x in cols], "want": [str(x) for x in names] + ([str(target)] if new_target else [])})
        if new_target and target not in cols:
            return {"ok": True, "rows": 0}          # (only possible for a frame without rows, see above)
        if new_target and cols[-1] != target:
            self.event("pd_new_target_column_not_last")
        if list(df.index) != list(orig.index) or len(df) != len(rows) or list(df.index.names) != list(orig.index.names):
            raise Violation(PROP, "row_order_or_index_changed", site, {"op": _short(op)})
        for name in names:
            if name == out_col:
                continue
            if list(df[name]) != list(orig[name]):
                raise Violation(PROP, "other_column_changed" if name != col else "source_column_changed", site,
                                {"column": str(name), "op": _short(op)})
        got = list(df[out_col])
        for i, (g, w) in enumerate(zip(got, expected)):
            if w is None:
                self.probe("pd_missing_is_na")
                ok = bool(pd.isna(g))
            else:
                ok = (not pd.isna(g)) and g == w
            if not ok:
                raise Violation(PROP, "target_cell_mismatch", site,
                                {"row": i, "got": None if pd.isna(g) else str(g), "want": w, "cell": rows[i][ci], "op": _short(op)})
        self.note_state(["pd", func, target is not None, len(rows), st, pt, amb], "pd", "ok")
        return {"ok": True, "rows": len(rows)}

    def nontrivial(self):
        return self.ff_nontrivial and self.fault_nontrivial


def _short(op):
    o = copy.deepcopy(op)
    for row in o.get("rows", []):
        for j, cell in enumerate(row):
            if len(cell) > 60:
                row[j] = cell[:20] + f"...({len(cell)} chars)"
    return o
