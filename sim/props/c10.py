"""C10 - deriving a new converter never alters the converters it was derived from.

A multi-converter world: up to 8 real converters; derivations (chain,
get_subconverter, remap_curie_prefixes, remap_uri_prefixes, rewire, discover)
and mutations (add_record / add_prefix on any converter) are interleaved by a
seeded scheduler; every converter is re-observed after every step and the
stated directions (inputs of a derivation; ancestors of a mutated derived
converter) are judged.
"""
from __future__ import annotations

import copy
import gc
import json

from .. import observe, tokens
from ..core import Machine, Violation
from .c05 import flag_kwargs, gen_valid_records

PROP = "C10"
DERIVATIONS = ["chain", "sub", "remap_curie", "remap_uri", "rewire", "discover"]
SITE = {
    "chain": "chain", "sub": "get_subconverter", "remap_curie": "remap_curie_prefixes",
    "remap_uri": "remap_uri_prefixes", "rewire": "rewire", "discover": "discover", "new": "new",
}
MAX_CONVERTERS = 8


class Entry:
    __slots__ = ("conv", "parents", "origin", "lite", "created_at", "mutated", "n_mut")

    def __init__(self, conv, parents, origin, created_at):
        self.conv = conv
        self.parents = list(parents)
        self.origin = origin
        self.lite = None
        self.created_at = created_at
        self.mutated = False
        self.n_mut = 0


class C10Machine(Machine):
    PROP = PROP
    EXPECTED_PROBES = [
        "followup_merge_hits_inherited_record", "derive_from_derived", "derivation_raised",
        "transitive_curie_remap_applied", "uri_remap_applied", "rewire_applied",
        "chain_merged_later_into_earlier", "discover_with_known_uris", "lineage_depth_ge_3",
        "sub_nonempty", "mutation_right_after_derivation", "chain_same_converter_twice",
        "curie_remap_applied", "large_root", "followup_add_with_pattern", "same_record_followed_through_lineage", "empty_mapping", "empty_prefix_subset", "same_derivation_again", "alternating_lookups", "intermediate_converter_garbage_collected", "same_derivation_same_result", "subset_given_as_str", "root_with_more_than_256_records", "baseline_without_any_query", "converter_first_queried_after_it_was_an_input", "fresh_strings_asked_of_derived_first", "root_of_a_converter_subclass",
    ]

    @classmethod
    def draw_config(cls, rng, tier):
        weights = {k: rng.choice([0, 1, 1, 2, 3]) for k in DERIVATIONS}
        if not any(weights.values()):
            weights[rng.choice(DERIVATIONS)] = 2
        deep = tier == "thorough" and rng.random() < 0.3
        cfg = {
            "max_ops": rng.randint(4, 14) if not deep else rng.randint(15, 28),
            "deep": deep,
            "max_converters": MAX_CONVERTERS if not deep else 12,
            "curie_pool": tokens.pick_pool(rng, tokens.CURIE_PREFIXES, tokens.RARE_CURIE_PREFIXES, 4, 9, rare_p=0.08),
            "uri_pool": tokens.pick_pool(rng, tokens.URI_PREFIXES, tokens.RARE_URI_PREFIXES, 4, 9, rare_p=0.08),
            "id_pool": rng.sample(tokens.IDENTIFIERS, 2),
            "weights": weights,
            "w_mutate": rng.choice([1, 2, 4, 6]),
            "w_new": rng.choice([1, 1, 2]),
            "p_mutate_after_derive": rng.choice([0.3, 0.6, 0.9]),
            "p_merge": rng.choice([0.5, 0.8, 1.0]),
            "p_hit_inherited": rng.choice([0.5, 0.8, 0.95]),
            "delimiters": [":"] + ([rng.choice(tokens.DELIMITERS[1:])] if rng.random() < 0.3 else []),
            # share of steps after which the converter the step produced / modified is NOT queried by the
            # harness (its baseline is then the records, views and index dictionaries only): a derivation
            # from a converter nobody has looked up anything in yet - what call chains do
            "p_cold": rng.choice([0.0, 0.25, 0.5]),
        }
        large = rng.random() < (0.03 if tier == "quick" else 0.06)
        cfg["large"] = large
        cfg["huge"] = large and rng.random() < 0.08
        if cfg["huge"]:
            cfg["curie_pool"] = cfg["curie_pool"] + tokens.synthetic_curie_prefixes(900)
            cfg["uri_pool"] = cfg["uri_pool"] + tokens.synthetic_uri_prefixes(900)
            cfg["max_ops"] = min(cfg["max_ops"], 8)
        elif large:
            cfg["curie_pool"] = cfg["curie_pool"] + tokens.synthetic_curie_prefixes(260)
            cfg["uri_pool"] = cfg["uri_pool"] + tokens.synthetic_uri_prefixes(260)
        return cfg

    def __init__(self, config, known=frozenset()):
        super().__init__(config, known)
        from ..env import load_curies

        self.curies = load_curies()
        self.entries = {}     # explicit id -> Entry (ids are recorded in the ops, so removing an op shifts nothing)
        self.next_id = 0
        cp, up = config["curie_pool"], config["uri_pool"]
        if config.get("huge"):
            cp = cp[:len(cp) - 900] + cp[len(cp) - 900::100]
            up = up[:len(up) - 900] + up[len(up) - 900::100]
        elif config.get("large"):
            cp = cp[:len(cp) - 260] + cp[len(cp) - 260::26]
            up = up[:len(up) - 260] + up[len(up) - 260::26]
        # one name of each pool is WITHHELD from every baseline: records may use it, but no converter is asked
        # about it except in _asked_elsewhere_first, where the derived converter is asked before its inputs
        self.withheld_c = cp[0] if len(cp) >= 4 else None
        self.withheld_u = up[0] if len(up) >= 4 else None
        if self.withheld_c is not None:
            cp = cp[1:]
        if self.withheld_u is not None:
            up = up[1:]
        self.strings, self.pairs = observe.probe_sets(cp, up, config["id_pool"], config["delimiters"], max_ids=2, compact=True)
        # the cells of the bulk observation: a spread of the probe strings (line breaks and NULs are left to C16)
        ok = [x for x in self.strings if x and not any(ch in x for ch in "\r\n\x00")]
        self.bulk_cells = ok[::max(1, len(ok) // 24)][:30]
        self.last_was_derivation = None
        self.last_mutation = None
        self.last_derivation_op = None
        self.just_forgot = False
        self.derived_before = {}
        self.nontrivial_hit = False
        self.unstated = 0

    # ----------------------------------------------------------- generation
    def gen_op(self, rng):
        op = self._gen_op(rng)
        if op is not None and op["op"] != "forget" and rng.random() < self.config.get("p_cold", 0.0):
            op["cold"] = True
        return op

    def _gen_op(self, rng):
        cfg = self.config
        if not self.entries:
            return self._gen_new(rng)
        deep_lineage = self.last_was_derivation is not None and any(
            self.entries[p].parents for p in self.entries[self.last_was_derivation].parents)
        if deep_lineage and not self.just_forgot and rng.random() < 0.3:
            # a.derive(..).derive(..): the INTERMEDIATE converter is a temporary that goes away before
            # anything is written to the result
            alive = [pid for pid in self.entries[self.last_was_derivation].parents
                     if self.entries[pid].conv is not None and self.entries[pid].parents]
            if alive:
                return {"op": "forget", "h": rng.choice(alive)}
        if self.last_was_derivation is not None and rng.random() < (0.9 if self.just_forgot else cfg["p_mutate_after_derive"]):
            h = self.last_was_derivation
            return self._gen_mutate(rng, h)
        if self.last_was_derivation is not None and not self.just_forgot and rng.random() < 0.15:
            # the program drops its reference to an INPUT of the last derivation (a temporary in a call
            # chain, a local of a helper): the object goes away, the derived converter lives on
            parents = self.entries[self.last_was_derivation].parents
            alive = [pid for pid in parents if self.entries[pid].conv is not None
                     and any(pid in self._ancestors(i) for i in self.entries if i != pid)]
            if alive:
                return {"op": "forget", "h": rng.choice(alive)}
        if self.last_derivation_op is not None and len(self.entries) < cfg.get("max_converters", MAX_CONVERTERS) \
                and rng.random() < 0.08:
            # the very same derivation once more: the result must again be new and independent
            op = copy.deepcopy(self.last_derivation_op)
            op["out"] = self._fresh_id()
            op["again"] = True
            return op
        if self.last_mutation is not None and rng.random() < 0.35:
            # follow one record through the lineage: the same record is now merged into on a converter
            # that was derived (directly or not) from the one just modified
            h0, token = self.last_mutation
            desc = [i for i in sorted(self.entries) if h0 in self._ancestors(i) and self.entries[i].conv is not None]
            if desc:
                h2 = rng.choice(desc)
                op = self._gen_mutate(rng, h2)
                recs = self._recs(h2)
                if any(token in [r["prefix"], *r["prefix_synonyms"]] for r in recs):
                    op["record"]["prefix"] = token
                    op["record"]["prefix_synonyms"] = [x for x in op["record"]["prefix_synonyms"] if x != token]
                    if op["record"]["uri_prefix"] in {u for r in recs for u in [r["uri_prefix"], *r["uri_prefix_synonyms"]]}:
                        op["record"]["uri_prefix"] = "m:" + str(rng.randint(5, 9)) + "/"
                    op["merge"] = True
                    op["case_sensitive"] = True
                    op["followed"] = True
                return op
        choices = []
        if len(self.entries) < self.config.get("max_converters", MAX_CONVERTERS):
            choices += [("new", cfg["w_new"])]
            choices += [(k, w) for k, w in sorted(cfg["weights"].items()) if w]
        choices += [("mutate", cfg["w_mutate"])]
        total = sum(w for _, w in choices)
        x = rng.random() * total
        kind = choices[-1][0]
        for k, w in choices:
            if x < w:
                kind = k
                break
            x -= w
        if kind == "new":
            return self._gen_new(rng)
        if kind == "mutate":
            derived = [i for i, e in sorted(self.entries.items()) if e.parents and e.conv is not None]
            if derived and rng.random() < 0.8:
                h = rng.choice(derived)
            else:
                h = rng.choice(sorted(i for i in self.entries if self.entries[i].conv is not None))
            return self._gen_mutate(rng, h)
        return getattr(self, "_gen_" + kind)(rng)

    def _pick(self, rng):
        # bias to recent converters so that lineages get deep
        ids = sorted(i for i in self.entries if self.entries[i].conv is not None)
        n = len(ids)
        if rng.random() < 0.5:
            return ids[n - 1 - min(int(rng.expovariate(1.0)), n - 1)]
        return ids[rng.randrange(n)]

    def _fresh_id(self):
        self.next_id += 1
        return self.next_id - 1

    def _recs(self, h):
        if self.entries[h].conv is None:
            return []
        # in a canonical order (records by prefix, synonyms sorted): what the generators draw from must not
        # depend on the order in which a library happens to keep things (it may follow the iteration order of
        # a set the caller passed, which follows the interpreter's hash seed)
        out = []
        for r in self.entries[h].conv.records:
            d = observe.record_dump(r)
            d["prefix_synonyms"] = sorted(d["prefix_synonyms"])
            d["uri_prefix_synonyms"] = sorted(d["uri_prefix_synonyms"])
            out.append(d)
        return sorted(out, key=observe.record_key)

    def _gen_new(self, rng):
        cfg = self.config
        n = rng.randint(1, 4) if not cfg.get("large") else rng.choice([8, 15, 16, 17, 24, 31, 32, 33, 64, 65, 100, 127])
        if cfg.get("huge") and not self.entries:
            n = rng.choice([128, 129, 255, 256, 257, 258, 300])
        recs = gen_valid_records(rng, cfg["curie_pool"], cfg["uri_pool"], n, p_repeat=0.1)
        return {"op": "new", "out": self._fresh_id(), "records": recs, "delimiter": rng.choice(cfg["delimiters"]),
                "container": rng.choice(tokens.CONTAINERS),
                # "all strict input converters": also converters of a SUBCLASS (the documented reason to
                # subclass is the standardize_identifier hook; the other one has a constructor of its own)
                "cls": rng.choice(["base", "base", "base", "base", "base", "hooked", "own_init"])}

    def _gen_chain(self, rng):
        k = rng.choice([1, 2, 2, 3, 4, 5])
        return {"op": "chain", "out": self._fresh_id(), "hs": [self._pick(rng) for _ in range(k)],
                "case_sensitive": rng.random() < 0.7, "arg_shape": rng.choice(["list", "list", "tuple"])}

    def _gen_sub(self, rng):
        h = self._pick(rng)
        recs = self._recs(h)
        cands = [r["prefix"] for r in recs] + [s for r in recs for s in r["prefix_synonyms"]]
        density = rng.choice([0.6, 0.6, 1.0, 0.3, 0.05, "one", "two"])
        if density in ("one", "two"):
            k = min(len(cands), 1 if density == "one" else 2)
            prefixes = rng.sample(cands, k) if k else []      # a sparse request out of a possibly big converter
        else:
            prefixes = [p for p in cands if rng.random() < density]
        if rng.random() < 0.3:
            prefixes.append(rng.choice(self.config["curie_pool"]))
        shape = rng.choice(["list", "list", "tuple", "set", "generator", "dict_keys", "str"])
        if shape == "str":
            singles = [p for p in cands if len(p) == 1]
            prefixes = rng.sample(singles, min(len(singles), rng.choice([1, 1, 2]))) if singles else prefixes
        return {"op": "sub", "out": self._fresh_id(), "h": h, "prefixes": prefixes, "arg_shape": shape}

    def _gen_remap_curie(self, rng):
        cfg = self.config
        h = self._pick(rng)
        recs = self._recs(h)
        known = [r["prefix"] for r in recs] + [s for r in recs for s in r["prefix_synonyms"]]
        pairs = []
        used_keys = set()
        for _ in range(rng.choice([1, 1, 2, 3])):
            key = rng.choice(known) if known and rng.random() < 0.85 else rng.choice(cfg["curie_pool"])
            if key in used_keys:
                continue
            used_keys.add(key)
            r = rng.random()
            if r < 0.5:
                val = rng.choice(cfg["curie_pool"])
            elif r < 0.7 and known:
                val = rng.choice(known)
            elif r < 0.85 and pairs:
                val = pairs[-1][0]  # chain / swap with an earlier key
            else:
                val = "new" + str(rng.randint(1, 3))
            pairs.append([key, val])
        if rng.random() < 0.1:
            pairs = pairs + [[f"irrelevant{i}", f"nowhere{i}"] for i in range(rng.choice([3, 10, 15, 16, 17, 40, 130]))]
        if rng.random() < 0.08:
            pairs = []      # the empty remapping: "nothing to do" must still give a new, independent converter
        if pairs and rng.random() < 0.25:
            # transitive chain a->b, b->c over two known canonical prefixes
            canon = [r["prefix"] for r in recs]
            if len(canon) >= 2:
                a, b = rng.sample(canon, 2)
                pairs = [[a, b], [b, "new" + str(rng.randint(1, 3))]]
        return {"op": "remap_curie", "out": self._fresh_id(), "h": h, "mapping": pairs}

    def _gen_remap_uri(self, rng):
        cfg = self.config
        h = self._pick(rng)
        recs = self._recs(h)
        known = [r["uri_prefix"] for r in recs] + [s for r in recs for s in r["uri_prefix_synonyms"]]
        pairs = []
        used = set()
        for _ in range(rng.choice([1, 1, 2, 3])):
            key = rng.choice(known) if known and rng.random() < 0.85 else rng.choice(cfg["uri_pool"])
            if key in used:
                continue
            used.add(key)
            r = rng.random()
            if r < 0.55:
                val = rng.choice(cfg["uri_pool"])
            elif r < 0.75 and known:
                val = rng.choice(known)
            else:
                val = "n:" + str(rng.randint(1, 3)) + "/"
            pairs.append([key, val])
        if rng.random() < 0.12:
            # a LARGE mapping (a code path chosen by the size of the mapping must be met too)
            pairs = pairs + [[f"irrelevant:{i}/", f"nowhere:{i}/"] for i in range(rng.choice([3, 13, 14, 15, 16, 17, 40, 130]))]
        if rng.random() < 0.08:
            pairs = []
        return {"op": "remap_uri", "out": self._fresh_id(), "h": h, "mapping": pairs}

    def _gen_rewire(self, rng):
        cfg = self.config
        h = self._pick(rng)
        recs = self._recs(h)
        known = [r["prefix"] for r in recs] + [s for r in recs for s in r["prefix_synonyms"]]
        uris = [r["uri_prefix"] for r in recs] + [s for r in recs for s in r["uri_prefix_synonyms"]]
        pairs = []
        used = set()
        for _ in range(rng.choice([1, 1, 2, 3])):
            key = rng.choice(known) if known and rng.random() < 0.85 else rng.choice(cfg["curie_pool"])
            if key in used:
                continue
            used.add(key)
            r = rng.random()
            if r < 0.5:
                val = rng.choice(cfg["uri_pool"])
            elif r < 0.75 and uris:
                val = rng.choice(uris)
            else:
                val = "n:" + str(rng.randint(1, 3)) + "/"
            pairs.append([key, val])
        if rng.random() < 0.12:
            pairs = pairs + [[f"irrelevant{i}", f"nowhere:{i}/"] for i in range(rng.choice([3, 13, 14, 15, 16, 17, 40, 130]))]
        if rng.random() < 0.08:
            pairs = []
        return {"op": "rewire", "out": self._fresh_id(), "h": h, "mapping": pairs}

    def _gen_discover(self, rng):
        cfg = self.config
        h = self._pick(rng)
        uris = []
        for _ in range(rng.choice([1, 2, 3, 4, 6, 6, 20, 60])):
            base = rng.choice(cfg["uri_pool"]) if rng.random() < 0.7 else "http://n.org/" + rng.choice(["a", "b"]) + rng.choice(["/", "#", "_"])
            uris.append(base + rng.choice(["1", "x2", "abc", "", "a b"]))
        if rng.random() < 0.1:
            uris = []
        return {"op": "discover", "out": self._fresh_id(), "h": h, "uris": uris, "cutoff": rng.choice([None, None, 1, 2, 5]),
                "metaprefix": rng.choice(["ns", "m"]),
                "delimiters": rng.choice([None, None, ["/"], ["#", "_"], [":", "/"]]),
                "arg_shape": rng.choice(["list", "list", "set", "generator", "tuple"])}

    def _gen_mutate(self, rng, h):
        cfg = self.config
        recs = self._recs(h)
        kind = "add_prefix" if rng.random() < 0.5 else "add_record"
        all_c = {t for r in recs for t in [r["prefix"], *r["prefix_synonyms"]]}
        all_u = {t for r in recs for t in [r["uri_prefix"], *r["uri_prefix_synonyms"]]}
        fresh_c = [t for t in cfg["curie_pool"] if t not in all_c] + ["mx" + str(rng.randint(1, 4))]
        fresh_u = [t for t in cfg["uri_pool"] if t not in all_u] + ["m:" + str(rng.randint(1, 4)) + "/"]
        rec = {"prefix": None, "uri_prefix": None, "prefix_synonyms": [], "uri_prefix_synonyms": [], "pattern": None}
        if recs and rng.random() < cfg["p_hit_inherited"]:
            r1 = rng.choice(recs)
            mode = rng.random()
            if mode < 0.4:
                rec["prefix"] = rng.choice([r1["prefix"], *r1["prefix_synonyms"]])
                rec["uri_prefix"] = rng.choice(fresh_u)
            elif mode < 0.7:
                rec["prefix"] = rng.choice(fresh_c)
                rec["uri_prefix"] = rng.choice([r1["uri_prefix"], *r1["uri_prefix_synonyms"]])
            else:
                rec["prefix"] = r1["prefix"]
                rec["uri_prefix"] = r1["uri_prefix"]
                rec["prefix_synonyms"] = [rng.choice(fresh_c)]
                if rng.random() < 0.5:
                    rec["uri_prefix_synonyms"] = [rng.choice(fresh_u)]
        else:
            rec["prefix"] = rng.choice(fresh_c)
            rec["uri_prefix"] = rng.choice(fresh_u)
        rec["prefix_synonyms"] = [s for s in rec["prefix_synonyms"] if s != rec["prefix"]]
        rec["uri_prefix_synonyms"] = [s for s in rec["uri_prefix_synonyms"] if s != rec["uri_prefix"]]
        if rng.random() < 0.15:
            n = rng.choice([2, 4, 8])
            rec["prefix_synonyms"] = rec["prefix_synonyms"] + [f"fs{self.steps}_{i}" for i in range(n)]
            rec["uri_prefix_synonyms"] = rec["uri_prefix_synonyms"] + [f"fs:{self.steps}/{i}/" for i in range(n)]
        if rng.random() < 0.06:
            side = "prefix_synonyms" if rng.random() < 0.5 else "uri_prefix_synonyms"
            if rec[side]:
                rec[side] = rec[side] + [rec[side][0]]        # a synonym repeated in its own record
        if kind == "add_record" and rng.random() < 0.4:
            rec["pattern"] = rng.choice(["^\\d+$", "^[A-Z]+$", ""])      # only add_record can carry a pattern
        return {"op": "mutate", "h": h, "kind": kind, "record": rec,
                "case_sensitive": rng.random() < 0.8, "merge": rng.random() < cfg["p_merge"],
                "omit_defaults": rng.random() < 0.5}

    @staticmethod
    def simplify_op(op):
        if op.get("cold"):
            yield {k: v for k, v in op.items() if k != "cold"}
        yield from C10Machine._simplify_op(op)

    @staticmethod
    def _simplify_op(op):
        if op["op"] == "new":
            for i in range(len(op["records"])):
                if len(op["records"]) > 1:
                    c = copy.deepcopy(op)
                    del c["records"][i]
                    yield c
            for i, r in enumerate(op["records"]):
                for key in ("uri_prefix_synonyms", "prefix_synonyms"):
                    for j in range(len(r[key])):
                        c = copy.deepcopy(op)
                        del c["records"][i][key][j]
                        yield c
                if r.get("pattern"):
                    c = copy.deepcopy(op)
                    c["records"][i]["pattern"] = None
                    yield c
            if op.get("delimiter") != ":":
                yield dict(copy.deepcopy(op), delimiter=":")
        if op["op"] == "chain" and len(op["hs"]) > 1:
            for i in range(len(op["hs"])):
                c = copy.deepcopy(op)
                del c["hs"][i]
                yield c
        if op["op"] in ("remap_curie", "remap_uri", "rewire") and len(op["mapping"]) >= 1:
            for i in range(len(op["mapping"])):
                c = copy.deepcopy(op)
                del c["mapping"][i]
                yield c
        if op["op"] == "sub":
            for i in range(len(op["prefixes"])):
                c = copy.deepcopy(op)
                del c["prefixes"][i]
                yield c
        if op["op"] == "discover":
            for i in range(len(op["uris"])):
                c = copy.deepcopy(op)
                del c["uris"][i]
                yield c
        if op["op"] == "mutate":
            r = op["record"]
            for key in ("uri_prefix_synonyms", "prefix_synonyms"):
                for j in range(len(r[key])):
                    c = copy.deepcopy(op)
                    del c["record"][key][j]
                    yield c
            if not op["case_sensitive"]:
                yield dict(copy.deepcopy(op), case_sensitive=True)
            if r.get("pattern"):
                c = copy.deepcopy(op)
                c["record"]["pattern"] = None
                yield c
            if op["kind"] == "add_record" and not r.get("pattern"):
                yield dict(copy.deepcopy(op), kind="add_prefix")

    # ------------------------------------------------------------ execution
    # Baselines. The property is about what a DERIVATION (or a later modification of its result) does to
    # a converter - not about what the harness's own queries do to it. A baseline is therefore either
    #   warm: the answers on the probe set, and the structure as it is AFTER those queries were made
    #         (whatever a converter builds or tidies up lazily on lookup has then happened), or
    #   cold: the structure only, no query made at all since the converter was created / last modified.
    # A re-check reads the structure first (nothing but the judged calls happened since the baseline),
    # then asks the queries, then settles a new warm baseline.
    def _root_class(self, kind):
        c = self.curies
        memo = self.__dict__.setdefault("_classes", {})
        if kind not in memo:
            if kind == "hooked":
                class Hooked(c.Converter):
                    def standardize_identifier(self, standard_prefix, identifier):
                        return identifier.removeprefix(standard_prefix + self.delimiter)

                memo[kind] = Hooked
            elif kind == "own_init":
                class OwnInit(c.Converter):
                    def __init__(self, records, tag="t", **kwargs):
                        super().__init__(records, **kwargs)
                        self.tag = tag

                memo[kind] = OwnInit
            else:
                memo[kind] = c.Converter
        return memo[kind]

    def _answers(self, conv):
        ans = observe.answers(conv, self.strings, self.pairs, full=False)
        ans["bulk"] = self._bulk(conv)
        return ans

    def _bulk(self, conv):
        """The bulk functions as queries of a converter: one data-frame call and one file call over a
        column of probe cells (a converter's answers "to every query" include what pd_* / file_* make of a
        cell; state that only the bulk paths keep is invisible to the scalar methods)."""
        return observe.bulk_answers(conv, self.bulk_cells, self._bulk_dir())

    def _bulk_dir(self):
        if getattr(self, "_bdir", None) is None:
            self._bdir = observe.scratch_dir("c10bulk_")
        return self._bdir

    def close(self):
        if getattr(self, "_bdir", None) is not None:
            import shutil

            shutil.rmtree(self._bdir, ignore_errors=True)
            self._bdir = None

    def _settle(self, e):
        """The harness itself just queried this converter: read its structure again, so that what its OWN
        lookups did to the converter (a self-organising list, a lazily sorted one) is in the baseline."""
        if e is not None and e.conv is not None and e.lite is not None:
            e.lite["structure"] = observe.structure(e.conv)

    def _entry_of(self, conv):
        for e in self.entries.values():
            if e.conv is conv:
                return e
        return None

    def _warm(self, conv):
        ans = self._answers(conv)
        return {"structure": observe.structure(conv), "answers": ans}

    def _cold(self, conv):
        self.probe("baseline_without_any_query")
        return {"structure": observe.structure(conv), "answers": None}

    def _baseline(self, conv, cold):
        return self._cold(conv) if cold else self._warm(conv)

    def _recheck(self, e):
        """None if the converter of entry ``e`` is observably what its baseline says (the baseline is then
        settled warm); else the list of differences."""
        pre = observe.structure(e.conv)
        if pre != e.lite["structure"]:
            return observe.diff(e.lite["structure"], pre, path="/structure")
        ans = self._answers(e.conv)
        if e.lite["answers"] is not None and ans != e.lite["answers"]:
            return observe.diff(e.lite["answers"], ans, path="/answers")
        if e.lite["answers"] is None:
            self.probe("converter_first_queried_after_it_was_an_input")
        post = observe.structure(e.conv)
        if post != pre:
            self.event("structure_changed_by_the_harness_own_queries")     # not a derivation's doing
        e.lite = {"structure": post, "answers": ans}
        return None

    def _add(self, conv, parents, origin, out, cold=False):
        if out is None or out in self.entries:
            out = max(list(self.entries) + [self.next_id - 1]) + 1
        self.next_id = max(self.next_id, out + 1)
        e = Entry(conv, parents, origin, self.steps)
        e.lite = self._baseline(conv, cold)
        self.entries[out] = e
        return out

    def _ancestors(self, h):
        out = []
        seen = set()
        stack = list(self.entries[h].parents)
        while stack:
            p = stack.pop()
            if p in seen:
                continue
            seen.add(p)
            out.append(p)
            stack.extend(self.entries[p].parents)
        return sorted(out)

    def _depth(self, h):
        e = self.entries[h]
        return 0 if not e.parents else 1 + max(self._depth(p) for p in e.parents)

    def _valid(self, h):
        return h in self.entries and self.entries[h].conv is not None

    def apply(self, op):
        c = self.curies
        kind = op["op"]
        if kind == "new":
            if len(self.entries) >= self.config.get("max_converters", MAX_CONVERTERS):
                return {"skipped": "full"}
            try:
                cls = self._root_class(op.get("cls", "base"))
                conv = cls(tokens.as_container(op.get("container", "list"), [c.Record(**r) for r in op["records"]]),
                           delimiter=op.get("delimiter", ":"))
            except Exception:  # noqa: BLE001 - building roots is not what this property is about
                return {"skipped": "invalid records"}
            if op.get("cls", "base") != "base":
                self.probe("root_of_a_converter_subclass")
            h = self._add(conv, [], "new", op.get("out"), cold=bool(op.get("cold")))
            self.event("new")
            if len(op["records"]) >= 8:
                self.probe("large_root")
            if len(op["records"]) > 256:
                self.probe("root_with_more_than_256_records")
            self.last_was_derivation = None
            self._note("new")
            return {"new": h}
        if kind == "mutate":
            return self._mutate(op)
        if kind == "forget":
            h = op["h"]
            if not self._valid(h) or self.entries[h].conv is None:
                return {"skipped": "handle"}
            # the converter object is released and collected; its lineage edges stay, so that its own
            # ancestors are still re-observed when a descendant is modified
            self.entries[h].conv = None
            self.entries[h].lite = None
            gc.collect()
            self.event("forget")
            self.probe("intermediate_converter_garbage_collected")
            self.just_forgot = True       # the derived converter stays the favourite target of the next mutation
            return {"forgot": h}
        return self._derive(op)

    def _derive(self, op):
        c = self.curies
        kind = op["op"]
        site = SITE[kind]
        hs = op["hs"] if kind == "chain" else [op["h"]]
        if not hs or not all(self._valid(h) for h in hs):
            return {"skipped": "handle"}
        if len(self.entries) >= self.config.get("max_converters", MAX_CONVERTERS):
            return {"skipped": "full"}
        inputs = [self.entries[h].conv for h in hs]
        from curies import reconciliation, discovery

        result = None
        err = None
        try:
            shape = op.get("arg_shape", "list")
            if kind == "chain":
                result = c.chain(tuple(inputs) if shape != "list" else inputs, case_sensitive=op.get("case_sensitive", True))
            elif kind == "sub":
                pf = list(op["prefixes"])
                arg = {"list": pf, "tuple": tuple(pf), "set": set(pf), "generator": (x for x in pf),
                       "dict_keys": dict.fromkeys(pf).keys()}.get(shape, pf)
                if shape == "str" and pf and all(len(x) == 1 for x in pf):
                    arg = "".join(pf)       # a str is an Iterable[str] of its characters: the same request
                    self.probe("subset_given_as_str")
                result = inputs[0].get_subconverter(arg)
            elif kind == "remap_curie":
                result = reconciliation.remap_curie_prefixes(inputs[0], {k: v for k, v in op["mapping"]})
            elif kind == "remap_uri":
                result = reconciliation.remap_uri_prefixes(inputs[0], {k: v for k, v in op["mapping"]})
            elif kind == "rewire":
                result = reconciliation.rewire(inputs[0], {k: v for k, v in op["mapping"]})
            elif kind == "discover":
                dkw = {"delimiters": op["delimiters"]} if op.get("delimiters") else {}
                uris = list(op["uris"])
                # (a set-like view with a fixed iteration order: discover may legitimately number what it finds
                # in the order it is given, and a real set of strings iterates in hash-seed order)
                uarg = {"set": dict.fromkeys(uris).keys(), "generator": (u for u in uris), "tuple": tuple(uris)}.get(op.get("arg_shape"), uris)
                result = discovery.discover(uarg, cutoff=op.get("cutoff"),
                                            metaprefix=op.get("metaprefix", "ns"), converter=inputs[0], **dkw)
            else:
                raise ValueError(kind)
        except Exception as e:  # noqa: BLE001 - which error is C09/C11/C12's business
            err = e
        self.event("derive_" + kind)
        self.just_forgot = False
        self.last_derivation_op = {k: v for k, v in op.items() if k != "again"}
        dkey = json.dumps({k: v for k, v in op.items() if k not in ("again", "out")}, sort_keys=True)
        stamp = [self.entries[h].n_mut for h in hs]
        if op.get("again"):
            self.probe("same_derivation_again")
        if err is not None:
            self.fault("derivation_raised_" + type(err).__name__)
            self.probe("derivation_raised")
        if any(self.entries[h].parents for h in hs):
            self.probe("derive_from_derived")
        if kind == "chain" and len(set(hs)) < len(hs):
            self.probe("chain_same_converter_twice")
        if kind in ("remap_curie", "remap_uri", "rewire") and not op["mapping"]:
            self.probe("empty_mapping")
        if kind == "sub" and not op["prefixes"]:
            self.probe("empty_prefix_subset")

        # stated direction 1: every input is observably unchanged, returned or raised
        changed_kind = "input_changed" if err is None else "input_changed_on_raise"
        for h in sorted(set(hs)):
            e = self.entries[h]
            d = self._recheck(e)
            if d is not None:
                raise Violation(PROP, changed_kind, site,
                                {"input": h, "diff": d, "op": op,
                                 "exception": type(err).__name__ if err else None})
        # everything else in the world: not a stated direction of *this* step unless it is an
        # ancestor of an input (a derivation from D must not disturb D's own inputs either)
        anc = sorted({a for h in hs for a in self._ancestors(h)} - set(hs))
        for a in anc:
            e = self.entries[a]
            if e.conv is None:
                continue
            d = self._recheck(e)
            if d is not None:
                raise Violation(PROP, changed_kind, site,
                                {"input": a, "via": "ancestor of an input", "diff": d, "op": op})
        self._refresh_unstated(exclude=set(hs) | set(anc))

        if err is None:
            if result is None or any(result is i for i in inputs):
                raise Violation(PROP, "not_new_object", site, {"op": op})
            for oid, other in sorted(self.entries.items()):
                if other.conv is not None and result is other.conv:
                    # "return a new converter": an object that an earlier derivation already handed out is not new
                    raise Violation(PROP, "not_new_object", site, {"op": op, "same_object_as_converter": oid})
            h = self._add(result, hs, kind, op.get("out"), cold=bool(op.get("cold")))
            # what an input hands out for the same request must not depend on what happened to an earlier
            # result (the request is a query of the input, too)
            rstruct = observe.structure(result, ordered=False)
            prev = self.derived_before.get(dkey)
            if prev is not None and prev[0] == stamp and prev[1] != rstruct:
                raise Violation(PROP, "input_derives_differently", site,
                                {"op": op, "diff": observe.diff(prev[1], rstruct),
                                 "note": "same derivation, same arguments, inputs not modified in between"})
            if prev is not None and prev[0] == stamp:
                self.probe("same_derivation_same_result")
            self.derived_before[dkey] = (stamp, rstruct)
            self._reach_after_derivation(kind, op, hs, result)
            if not op.get("cold"):
                self._alternate(result, sorted(set(hs)), None, site, "input_changed", op)
                self._asked_elsewhere_first(result, sorted(set(hs)), site, "input_changed", op)
            self.last_was_derivation = h
            if self._depth(h) >= 3:
                self.probe("lineage_depth_ge_3")
            self._note(kind, "ok")
            return {"derived": h, "records": len(result.records)}
        self.last_was_derivation = None
        self._note(kind, "raised")
        return {"raised": True}

    def _reach_after_derivation(self, kind, op, hs, result):
        # rare-condition probes, computed from before/after records only
        ins = [self.entries[h].lite["structure"]["records"] for h in hs]
        out = [observe.record_dump(r) for r in result.records]
        if kind == "chain" and len(hs) > 1:
            first = {r["prefix"]: r for r in ins[0]}
            for r in out:
                f = first.get(r["prefix"])
                if f is not None and (set(r["uri_prefix_synonyms"]) - set(f["uri_prefix_synonyms"])
                                      or set(r["prefix_synonyms"]) - set(f["prefix_synonyms"])):
                    self.probe("chain_merged_later_into_earlier")
                    break
        if kind == "sub" and out:
            self.probe("sub_nonempty")
        if kind == "remap_curie":
            before = {r["uri_prefix"]: r["prefix"] for r in ins[0]}
            n = sum(1 for r in out if before.get(r["uri_prefix"]) != r["prefix"])
            if n:
                self.probe("curie_remap_applied")
            keys = {k for k, _ in op["mapping"]}
            vals = {v for _, v in op["mapping"]}
            if n >= 2 and keys & vals:
                self.probe("transitive_curie_remap_applied")
        if kind in ("remap_uri", "rewire"):
            before = {r["prefix"]: r["uri_prefix"] for r in ins[0]}
            if any(before.get(r["prefix"]) != r["uri_prefix"] for r in out):
                self.probe("uri_remap_applied" if kind == "remap_uri" else "rewire_applied")
        if kind == "discover":
            conv = self.entries[hs[0]].conv
            if any(conv.is_uri(u) for u in op["uris"]):
                self.probe("discover_with_known_uris")
            self._settle(self.entries[hs[0]])

    def _mutate(self, op):
        c = self.curies
        h = op["h"]
        if not self._valid(h):
            return {"skipped": "handle"}
        e = self.entries[h]
        rd = op["record"]
        anc = self._ancestors(h)
        if self.last_was_derivation == h:
            self.probe("mutation_right_after_derivation")
        self.last_was_derivation = None
        # was a record that an ancestor also knows hit by this submission?
        tokens_c = {rd["prefix"], *rd["prefix_synonyms"]}
        tokens_u = {rd["uri_prefix"], *rd["uri_prefix_synonyms"]}
        own = e.lite["structure"]["records"]
        hit_own = any(tokens_c & {r["prefix"], *r["prefix_synonyms"]} or tokens_u & {r["uri_prefix"], *r["uri_prefix_synonyms"]} for r in own)
        hit_inherited = False
        if hit_own:
            for a in anc:
                if self.entries[a].lite is None:
                    continue
                for r in self.entries[a].lite["structure"]["records"]:
                    if tokens_c & {r["prefix"], *r["prefix_synonyms"]} or tokens_u & {r["uri_prefix"], *r["uri_prefix_synonyms"]}:
                        hit_inherited = True
        err = None
        try:
            if op["kind"] == "add_record":
                e.conv.add_record(c.Record(**rd), **flag_kwargs(op, op["case_sensitive"], op["merge"]))
            else:
                e.conv.add_prefix(rd["prefix"], rd["uri_prefix"], prefix_synonyms=list(rd["prefix_synonyms"]),
                                  uri_prefix_synonyms=list(rd["uri_prefix_synonyms"]),
                                  **flag_kwargs(op, op["case_sensitive"], op["merge"]))
        except Exception as ex:  # noqa: BLE001
            err = ex
        self.event("mutate_" + op["kind"] + ("_rejected" if err else "_accepted"))
        self.last_mutation = (h, rd["prefix"]) if (err is None and op["merge"] and hit_own) else None
        if op.get("followed") and err is None:
            self.probe("same_record_followed_through_lineage")
        if err is not None:
            self.fault("mutation_rejected")
        site = SITE.get(e.origin, e.origin) + "->" + op["kind"]
        # stated direction 2: nothing leaks back into any (transitive) input of the mutated converter
        # (first the alternating lookups - modified converter, then its input, before anything else asks the
        # input - then every ancestor in full)
        if anc and not op.get("cold"):
            self._alternate(e.conv, anc, rd["prefix"], site, "leak_to_ancestor", op)
        for a in anc:
            ae = self.entries[a]
            if ae.conv is None:
                continue
            d = self._recheck(ae)
            if d is not None:
                raise Violation(PROP, "leak_to_ancestor", site,
                                {"mutated": h, "ancestor": a, "diff": d, "op": op})
        if anc and not op.get("cold"):
            self._asked_elsewhere_first(e.conv, anc, site, "leak_to_ancestor", op)
        if err is None and rd.get("pattern") and anc:
            self.probe("followup_add_with_pattern")
        if err is None and op["merge"] and hit_inherited and anc:
            self.probe("followup_merge_hits_inherited_record")
            self.nontrivial_hit = True
        # the mutated converter legitimately changed: refresh it
        e.lite = self._baseline(e.conv, bool(op.get("cold")))
        e.mutated = True
        e.n_mut += 1
        self._refresh_unstated(exclude=set(anc) | {h})
        self._note("mutate_" + op["kind"], "rejected" if err else "accepted")
        return {"mutated": h, "rejected": bool(err)}

    def _alternate(self, near, far_ids, hint, site, kind_of_violation, op):
        """Ask a converter and its inputs / ancestors the SAME string in immediately consecutive lookups
        (derived first, input next): state shared between them that only remembers the most recent
        lookup is invisible to whole-converter passes, which never end and begin on the same string."""
        cands = [x for x in self.strings if hint and x.startswith(hint)][:3]
        k = self.steps % max(1, len(self.strings))
        cands += [self.strings[k], self.strings[(k + 7) % len(self.strings)]]
        pcands = [pr for pr in self.pairs if hint and pr[0] == hint][:1] + [self.pairs[self.steps % len(self.pairs)]]
        for a in [x for x in far_ids if self.entries[x].conv is not None and self.entries[x].lite["answers"] is not None][:3]:
            ae = self.entries[a]
            # (records, views and index dictionaries first, before any lookup of the harness touches the input)
            pre = observe.structure(ae.conv)
            if pre != ae.lite["structure"]:
                raise Violation(PROP, kind_of_violation, site,
                                {"ancestor": a, "diff": observe.diff(ae.lite["structure"], pre, path="/structure"), "op": op})
            # the same table through the bulk functions, derived converter first, its input next
            self._bulk(near)
            gotb = self._bulk(ae.conv)
            if gotb != ae.lite["answers"]["bulk"]:
                raise Violation(PROP, kind_of_violation, site,
                                {"ancestor": a, "bulk_conversion_right_after_the_other_converter": True,
                                 "diff": observe.diff(ae.lite["answers"]["bulk"], gotb), "op": op})
            for x in dict.fromkeys(cands):
                observe.answers(near, [x], [], full=False)
                got = observe.answers(ae.conv, [x], [], full=False)["strings"][x]
                want = ae.lite["answers"]["strings"].get(x)
                if want is not None and got != want:
                    raise Violation(PROP, kind_of_violation, site,
                                    {"ancestor": a, "asked_right_after_the_other_converter": x,
                                     "diff": observe.diff(want, got), "op": op})
            for pr in dict.fromkeys(pcands):
                key = json.dumps([pr[0], pr[1]], ensure_ascii=True)
                observe.answers(near, [], [pr], full=False)
                got = observe.answers(ae.conv, [], [pr], full=False)["pairs"][key]
                want = ae.lite["answers"]["pairs"].get(key)
                if want is not None and got != want:
                    raise Violation(PROP, kind_of_violation, site,
                                    {"ancestor": a, "asked_right_after_the_other_converter": list(pr),
                                     "diff": observe.diff(want, got), "op": op})
            self._settle(ae)
        self._settle(self._entry_of(near))
        self.probe("alternating_lookups")

    def _asked_elsewhere_first(self, near, far_ids, site, kind_of_violation, op):
        """Strings that NO converter of the world has been asked so far are asked of the derived / modified
        converter first and of its inputs next. An input's answer must be what a converter freshly built
        from the input's (baseline) records answers - whoever was asked first."""
        c = self.curies
        k = self.steps
        cp, up = self.config["curie_pool"], self.config["uri_pool"]
        uris = [up[(k + j) % len(up)] + f"z{k}_{j}" for j in range(3)]
        names = [cp[(k + j) % len(cp)] for j in range(2)]
        if self.withheld_u is not None:
            uris.append(self.withheld_u + "1")
        if self.withheld_c is not None:
            names.append(self.withheld_c)
        pairs = [(self.withheld_c, "1")] if self.withheld_c is not None else []
        observe.answers(near, uris + [n + near.delimiter + f"z{k}_{j}" for j, n in enumerate(names)] + names[2:], pairs, full=False)
        for a in [x for x in far_ids if self.entries[x].conv is not None and self.entries[x].lite["answers"] is not None][:3]:
            ae = self.entries[a]
            base = ae.lite["structure"]
            strings = uris + [n + base["delimiter"] + f"z{k}_{j}" for j, n in enumerate(names)] + names[2:]
            try:
                robjs = [c.Record(**d) for d in copy.deepcopy(base["records"])]
                if [observe.record_dump(r) for r in robjs] != base["records"]:
                    # the Record class does not reproduce the input's records from their data (it drops or
                    # normalises something that only other routes can put there): no faithful reference
                    raise ValueError("records do not round-trip")
                try:
                    ref = type(ae.conv)(robjs, delimiter=base["delimiter"])      # (the input's own class)
                except TypeError:
                    ref = c.Converter(robjs, delimiter=base["delimiter"])
                if sorted((observe.record_dump(r) for r in ref.records), key=observe.record_key) != \
                        sorted(base["records"], key=observe.record_key):
                    # (the constructor made something else of the records - say, sorted their synonym lists)
                    raise ValueError("the constructor does not keep the records as given")
            except Exception:  # noqa: BLE001 - records the constructor / Record class no longer takes: no reference
                self.event("no_reference_converter_for_input")
                continue
            observe.answers(near, strings, pairs, full=False)
            got = observe.answers(ae.conv, strings, pairs, full=False)
            want = observe.answers(ref, strings, pairs, full=False)
            if got != want:
                raise Violation(PROP, kind_of_violation, site,
                                {"ancestor": a, "strings_first_asked_of_the_other_converter": True,
                                 "diff": observe.diff(want, got), "op": op})
            self._settle(ae)
        self._settle(self._entry_of(near))
        self.probe("fresh_strings_asked_of_derived_first")

    def _refresh_unstated(self, exclude):
        """Descendants / siblings: a direction the property does not state. Count, refresh, never report."""
        for i, e in sorted(self.entries.items()):
            if i in exclude or e.conv is None:
                continue
            # cheap test first (records, views, index dictionaries); this direction is never reported,
            # the point is only to keep the baseline of the stated directions honest
            if observe.structure(e.conv) != e.lite["structure"]:
                self.unstated += 1
                self.event("unstated_direction_change")
                e.lite = self._warm(e.conv)

    def _note(self, kind="op", outcome=None):
        self.note_state([e.lite["structure"]["records"] for _, e in sorted(self.entries.items()) if e.lite is not None], kind, outcome)

    def recover(self, op):
        for e in self.entries.values():
            if e.conv is None:
                continue
            e.lite = self._warm(e.conv)

    def finish(self):
        # end of run: every converter against its latest legitimate baseline (catches a change that
        # reached a converter by a route the per-step checks did not look at)
        for i, e in sorted(self.entries.items()):
            if e.conv is None:
                continue
            d = self._recheck(e)
            if d is not None:
                site = SITE.get(e.origin, e.origin)
                raise Violation(PROP, "changed_by_end_of_run", site, {"converter": i, "diff": d})

    def nontrivial(self):
        return self.nontrivial_hit
