"""C05 - incrementally built converters stay consistent with their own records.

An add-history machine: a real ``Converter`` and a record-set model are driven
by the same seeded history of ``add_record`` / ``add_prefix`` calls (accepted
and rejected); after every call the five oracles of DESIGN.md section 3/C05 are
evaluated.
"""
from __future__ import annotations

import copy

from .. import observe, tokens
from ..core import Machine, Violation
from ..models import MRecord, RecordSetModel, real_keys, uniqueness_clashes

PROP = "C05"
START_KINDS = ["empty", "ctor", "epm", "prefix_map", "priority", "reverse", "chain", "sub",
               "remap_curie", "remap_uri", "rewire"]
RELATIONS = [
    "fresh", "collide_curie", "collide_uri", "collide_both_same", "collide_two",
    "case_only", "identical", "new_synonyms_only", "syn_vs_canon", "syn_case_only", "invalid", "same_object",
]
PATTERNS = [None, None, "^\\d+$", "^[a-z]\\\\w+$", "",     # "" is a legal, falsy pattern
            "^[0-9+$", "(", "*a"]                            # not valid regular expressions (see `irregular`)


# add_prefix documents its synonym parameters as Collection[str] | None: every real Collection is tried
# (one-shot iterators are not Collections and are deliberately not passed)
COLLECTION_TYPES = {
    "list": list, "tuple": tuple, "set": set, "frozenset": frozenset,
    "dict_keys": lambda xs: dict.fromkeys(xs).keys(), "omit": list,
}


def irregular(rd):
    """Submissions the property does not regulate: the record lists its own canonical value among its
    synonyms (pydantic refuses that today; a tolerant add_prefix could filter it), or its pattern is
    not a valid regular expression (accepted today; a validating library could refuse it). For these
    the library may accept or refuse - but a refusal must change nothing, and an acceptance must be
    consistent with the record that remains after dropping the redundant synonyms."""
    import re

    if rd["prefix"] in rd["prefix_synonyms"] or rd["uri_prefix"] in rd["uri_prefix_synonyms"]:
        return "own_canonical_among_synonyms"
    if rd.get("pattern"):
        try:
            re.compile(rd["pattern"])
        except re.error:
            return "pattern_is_not_a_regex"
    return None


def _regex_refusal(irr, err):
    """A pattern that is not a regular expression, refused with the regex module's own error class."""
    import re

    return irr == "pattern_is_not_a_regex" and isinstance(err, re.error)


def caseless_consistent(pool):
    """Drop names on which legitimate notions of "equal up to case" disagree with plain casefold(): the
    Unicode caseless match NFKC(casefold(NFD(x))) equates "e\u0301" with "\u00e9", casefold() does not."""
    import unicodedata

    def key(x):
        return unicodedata.normalize("NFKC", unicodedata.normalize("NFD", x).casefold())

    out = []
    for t in pool:
        if all((key(t) == key(o)) == (t.casefold() == o.casefold()) for o in out):
            out.append(t)
    return out


def flag_kwargs(op, case_sensitive, merge):
    """Keyword flags of an add call; a flag that equals its documented default (case_sensitive=True,
    merge=False) is left out when the op says so - callers rely on the defaults too."""
    if not op.get("omit_defaults"):
        return {"case_sensitive": case_sensitive, "merge": merge}
    kw = {}
    if case_sensitive is not True:
        kw["case_sensitive"] = case_sensitive
    if merge is not False:
        kw["merge"] = merge
    return kw


def gen_valid_records(rng, curie_pool, uri_pool, n, with_pattern=True, max_syn=2, p_repeat=0.0):
    """A strict-valid record set over the pools (tokens used at most once; with ``p_repeat`` a record
    lists one of its own synonyms twice, which a Record allows)."""
    cp = list(curie_pool)
    up = list(uri_pool)
    rng.shuffle(cp)
    rng.shuffle(up)
    out = []
    for _ in range(n):
        if not cp or not up:
            break
        d = {"prefix": cp.pop(), "uri_prefix": up.pop(), "prefix_synonyms": [], "uri_prefix_synonyms": [],
             "pattern": rng.choice(PATTERNS) if with_pattern else None}
        for _ in range(rng.randint(0, max_syn)):
            if cp and rng.random() < 0.6:
                d["prefix_synonyms"].append(cp.pop())
        for _ in range(rng.randint(0, max_syn)):
            if up and rng.random() < 0.6:
                d["uri_prefix_synonyms"].append(up.pop())
        if p_repeat and rng.random() < p_repeat:
            side = "prefix_synonyms" if rng.random() < 0.5 else "uri_prefix_synonyms"
            if d[side]:
                d[side].append(d[side][0])
        out.append(d)
    return out


def swapcase_variant(s):
    """A differently-cased spelling of ``s`` that EVERY legitimate case folding equates with it (lower(),
    casefold() and upper() all agree), or None. "maß" -> "Maß" (not "MASS"); "ς" -> None."""
    for t in (s.swapcase(), s[:1].swapcase() + s[1:]):
        if t != s and t.casefold() == s.casefold() and t.lower() == s.lower() and t.upper() == s.upper():
            return t
    return None


class C05Machine(Machine):
    PROP = PROP
    EXPECTED_PROBES = [
        "reject_multi", "reject_nomerge", "merge_case_insensitive",
        "merge_adds_uri_synonym_only", "merge_keeps_pattern", "merge_into_start_built", "same_object_twice",
        "empty_prefix_token", "empty_uri_prefix_token", "start_from_chain", "start_from_subconverter",
        "retry_rejected_now_accepted", "retry_rejected_again_rejected", "other_side_of_rejected_appended", "other_side_of_rejected_merged_elsewhere",
        "start_from_reconciliation", "submission_with_own_case_variants", "large_converter", "merge_into_record_past_position_256", "flag_left_to_its_default", "big_submission", "synonym_repeated_in_own_record", "start_converter_not_observed", "call_not_observed", "catch_up_observation", "focus_on_unmentioned_name_of_merge_target", "irregular_submission_refused", "irregular_submission_accepted",
        "single_key_asked_last_before_and_first_after", "flood_of_lookups", "flood_of_more_than_2048_lookups",
    ]

    @classmethod
    def draw_config(cls, rng, tier):
        deep = tier == "thorough" and rng.random() < 0.3
        cfg = {
            "max_ops": rng.randint(3, 14) if not deep else rng.randint(15, 32),
            "deep": deep,
            "delimiter": rng.choice(tokens.DELIMITERS),
            "curie_pool": tokens.pick_pool(rng, tokens.CURIE_PREFIXES, tokens.RARE_CURIE_PREFIXES, 3, 10 if not deep else 16),
            "uri_pool": tokens.pick_pool(rng, tokens.URI_PREFIXES, tokens.RARE_URI_PREFIXES, 3, 10 if not deep else 16),
            "id_pool": rng.sample(tokens.IDENTIFIERS, 3),
            "p_collide": round(rng.uniform(0.3, 0.95), 3),
            "p_merge": round(rng.uniform(0.2, 0.9), 3),
            "p_ci": round(rng.choice([0.0, 0.2, 0.5, 0.8]), 3),
            "p_add_prefix": round(rng.uniform(0.2, 0.8), 3),
            "start_kind": rng.choice(START_KINDS),
            "start_size": rng.randint(0, 5),
        }
        cfg["curie_pool"] = caseless_consistent(cfg["curie_pool"])
        cfg["uri_pool"] = caseless_consistent(cfg["uri_pool"])
        # how often the converter is looked at: usually after every call, sometimes only every k-th call
        # or only at the end of the history (lazily built structures must also be right when COLD)
        cfg["observe_every"] = rng.choice([1, 1, 1, 1, 1, 2, 3, 99])
        # a flood of distinct throw-away lookups at some point of the history (bounded caches, generations)
        cfg["flood"] = rng.choice([600, 2600, 7000, 13000]) if rng.random() < (0.04 if tier == "quick" else 0.07) else 0
        large = rng.random() < (0.02 if tier == "quick" else 0.06)
        cfg["large"] = large
        # very rarely a HUGE converter: past 256 records (CPython's small-int cache, one-byte counters, ...)
        huge = rng.random() < (0.004 if tier == "quick" else 0.012)
        cfg["huge"] = huge
        cfg["n_synth"] = 0
        if large:
            cfg["start_size"] = rng.choice([14, 15, 16, 17, 20, 30, 31, 32, 33, 40, 63, 64, 65, 100, 128, 129])   # on / next to usual thresholds
            cfg["max_ops"] = rng.randint(8, 24)
            cfg["n_synth"] = 60 if cfg["start_size"] <= 40 else 420
        if huge:
            cfg["large"] = True
            cfg["start_size"] = rng.choice([200, 255, 256, 257, 258, 300])
            cfg["start_kind"] = rng.choice(["ctor", "epm", "prefix_map"])
            cfg["max_ops"] = rng.randint(8, 14)
            cfg["p_collide"] = 0.9
            cfg["n_synth"] = 900
        if cfg["n_synth"]:
            cfg["curie_pool"] = cfg["curie_pool"] + tokens.synthetic_curie_prefixes(cfg["n_synth"])
            cfg["uri_pool"] = cfg["uri_pool"] + tokens.synthetic_uri_prefixes(cfg["n_synth"])
        return cfg

    def __init__(self, config, known=frozenset()):
        super().__init__(config, known)
        from ..env import load_curies

        self.curies = load_curies()
        self.conv = None
        self.model = None
        cp, up = config["curie_pool"], config["uri_pool"]
        n_synth = int(config.get("n_synth", 0))
        if n_synth:
            # large / huge configurations: probe every base token and about 15 of the synthetic ones
            step = max(1, n_synth // 15)
            cp = cp[:len(cp) - n_synth] + cp[len(cp) - n_synth::step]
            up = up[:len(up) - n_synth] + up[len(up) - n_synth::step]
        self.strings, self.pairs = observe.probe_sets(cp, up, config["id_pool"], [config["delimiter"]])
        ok = [x for x in self.strings if x and not any(ch in x for ch in "\r\n\x00")]
        self.bulk_cells = ok[::max(1, len(ok) // 24)][:30]
        self.snap = None
        self.last_record_obj = None
        self.last_record_dump = None
        self.n_merge_new = 0
        self.n_reject = 0
        self.rejected = []        # earlier rejected submissions (op dicts), for the retry relations
        self.delimiter0 = config["delimiter"]
        self.focus = None
        self.single = None
        self.observe_every = int(config.get("observe_every", 1))
        self.dirty = False        # calls were made since the converter was last looked at
        self.n_calls = 0
        self.started = False
        self.flood_done = False
        self.flood_sample = []
        self.last_names = []

    # ----------------------------------------------------------- generation
    def gen_op(self, rng):
        cfg = self.config
        if not self.started:
            return self._gen_start(rng)
        if cfg.get("flood") and not self.flood_done and self.n_calls >= 1 and rng.random() < 0.35:
            return {"op": "flood", "n": cfg["flood"]}
        kind = "add_prefix" if rng.random() < cfg["p_add_prefix"] else "add_record"
        rel = self._pick_relation(rng)
        if rel == "retry_rejected":
            # the reject-then-retry idiom: the very same submission again, usually now with merge=True
            prev = rng.choice(self.rejected)
            return {
                "op": prev["op"], "relation": rel, "record": copy.deepcopy(prev["record"]),
                "case_sensitive": prev["case_sensitive"] if rng.random() < 0.85 else not prev["case_sensitive"],
                "merge": True if rng.random() < 0.75 else prev["merge"],
            }
        rec = self._gen_record(rng, rel, kind)
        force_merge = rec.pop("_force_merge", False)
        rec.pop("_repeat", None)
        op = {
            "op": kind,
            "relation": rel,
            "record": rec,
            "case_sensitive": not (rng.random() < cfg["p_ci"]),
            "merge": rng.random() < cfg["p_merge"],
        }
        if force_merge:
            op["merge"] = True
            op["case_sensitive"] = True
        op["omit_defaults"] = rng.random() < 0.5
        if rel == "same_object" and kind == "add_record" and self.last_record_dump is not None:
            op["same_object"] = True
            op["record"] = copy.deepcopy(self.last_record_dump)
        if kind == "add_prefix":
            op["record"]["pattern"] = None
            op["coll"] = rng.choice(["list", "list", "tuple", "set", "frozenset", "dict_keys", "omit"])
        return op

    def _gen_start(self, rng):
        cfg = self.config
        kind = cfg["start_kind"]
        n = cfg["start_size"]
        op = {"op": "start", "kind": kind, "delimiter": cfg["delimiter"], "container": rng.choice(tokens.CONTAINERS)}
        recs = gen_valid_records(rng, cfg["curie_pool"], cfg["uri_pool"], n,
                                 p_repeat=0.08 if kind in ("ctor", "epm") else 0.0)
        if kind == "empty":
            op["records"] = []
        elif kind in ("ctor", "epm"):
            op["records"] = recs
        elif kind == "prefix_map":
            op["records"] = [dict(r, prefix_synonyms=[], uri_prefix_synonyms=[], pattern=None) for r in recs]
        elif kind in ("priority", "reverse"):
            op["records"] = [dict(r, prefix_synonyms=[], pattern=None) for r in recs]
        elif kind == "chain":
            op["records"] = recs
            other = gen_valid_records(rng, cfg["curie_pool"], cfg["uri_pool"], rng.randint(1, 3))
            op["records2"] = other
            op["case_sensitive"] = rng.random() < 0.6
        elif kind in ("remap_curie", "remap_uri", "rewire"):
            op["records"] = recs
            if recs:
                r0 = rng.choice(recs)
                if kind == "remap_curie":
                    op["mapping"] = [[r0["prefix"], rng.choice(cfg["curie_pool"])]]
                elif kind == "remap_uri":
                    op["mapping"] = [[r0["uri_prefix"], rng.choice(cfg["uri_pool"])]]
                else:
                    op["mapping"] = [[r0["prefix"], rng.choice(cfg["uri_pool"])]]
            else:
                op["mapping"] = []
        elif kind == "sub":
            op["records"] = recs
            allp = [r["prefix"] for r in recs] + [s for r in recs for s in r["prefix_synonyms"]]
            op["prefixes"] = [p for p in allp if rng.random() < 0.6] + (["zz"] if rng.random() < 0.3 else [])
        return op

    def _pick_relation(self, rng):
        cfg = self.config
        if not self.model.records or rng.random() > cfg["p_collide"]:
            return "fresh"
        r = rng.random()
        if r < 0.04:
            return "invalid"
        if r < 0.08:
            return "same_object"
        if cfg.get("huge") and r < 0.45:
            return rng.choice(["collide_both_same", "collide_both_same", "new_synonyms_only", "identical"])
        if self.rejected and r < 0.20:
            return "retry_rejected"
        if self.rejected and r < 0.32:
            return "other_side_of_rejected"
        return rng.choice(RELATIONS[1:10])

    def _fresh_tokens(self, pool, used):
        return [t for t in pool if t not in used]

    def _gen_record(self, rng, rel, kind):
        cfg = self.config
        model = self.model
        used_c = set(model.all_curie_tokens())
        used_u = set(model.all_uri_tokens())
        fresh_c = self._fresh_tokens(cfg["curie_pool"], used_c)
        fresh_u = self._fresh_tokens(cfg["uri_pool"], used_u)

        def take(lst, fallback_pool):
            if lst:
                return lst.pop(rng.randrange(len(lst)))
            return rng.choice(fallback_pool)

        rec = {"prefix": None, "uri_prefix": None, "prefix_synonyms": [], "uri_prefix_synonyms": [],
               "pattern": rng.choice(PATTERNS)}
        recs = model.records
        r1 = rng.choice(recs) if recs else None
        if cfg.get("huge") and len(recs) > 60:
            r1 = recs[-rng.randint(1, 45)]      # positions 257.. are where the size matters
        if rel == "fresh" or r1 is None:
            rec["prefix"] = take(fresh_c, cfg["curie_pool"])
            rec["uri_prefix"] = take(fresh_u, cfg["uri_pool"])
        elif rel == "collide_curie":
            rec["prefix"] = rng.choice(sorted(r1.all_prefixes()))
            rec["uri_prefix"] = take(fresh_u, cfg["uri_pool"])
        elif rel == "collide_uri":
            rec["prefix"] = take(fresh_c, cfg["curie_pool"])
            rec["uri_prefix"] = rng.choice(sorted(r1.all_uri_prefixes()))
        elif rel == "collide_both_same":
            rec["prefix"] = rng.choice(sorted(r1.all_prefixes()))
            rec["uri_prefix"] = rng.choice(sorted(r1.all_uri_prefixes()))
        elif rel == "collide_two":
            r2 = rng.choice(recs)
            rec["prefix"] = rng.choice(sorted(r1.all_prefixes()))
            rec["uri_prefix"] = rng.choice(sorted(r2.all_uri_prefixes()))
        elif rel == "case_only":
            side = rng.random() < 0.5
            cands = sorted(r1.all_prefixes()) if side else sorted(r1.all_uri_prefixes())
            variants = [v for v in (swapcase_variant(c) for c in cands) if v is not None]
            if side:
                rec["prefix"] = rng.choice(variants) if variants else rng.choice(cands)
                rec["uri_prefix"] = take(fresh_u, cfg["uri_pool"])
            else:
                rec["prefix"] = take(fresh_c, cfg["curie_pool"])
                rec["uri_prefix"] = rng.choice(variants) if variants else rng.choice(cands)
        elif rel in ("identical", "new_synonyms_only", "same_object", "invalid"):
            rec["prefix"] = r1.prefix
            rec["uri_prefix"] = r1.uri_prefix
            if rel == "identical":
                rec["prefix_synonyms"] = sorted(r1.prefix_synonyms)
                rec["uri_prefix_synonyms"] = sorted(r1.uri_prefix_synonyms)
                rec["pattern"] = r1.pattern
        elif rel == "other_side_of_rejected":
            # a new record that takes the token(s) of an earlier rejected submission which did NOT collide
            prev = rng.choice(self.rejected)["record"]
            free_c = [t for t in [prev["prefix"], *prev["prefix_synonyms"]] if t not in used_c]
            free_u = [t for t in [prev["uri_prefix"], *prev["uri_prefix_synonyms"]] if t not in used_u]
            rec["prefix"] = rng.choice(free_c) if free_c and (not free_u or rng.random() < 0.5) else take(fresh_c, cfg["curie_pool"])
            rec["uri_prefix"] = rng.choice(free_u) if free_u and rec["prefix"] not in free_c else take(fresh_u, cfg["uri_pool"])
            if rec["prefix"] in used_c and rec["uri_prefix"] in used_u:
                rec["prefix"] = take(fresh_c, cfg["curie_pool"])
            if len(recs) >= 2 and rng.random() < 0.5:
                # variant: the free token is MERGED into some existing record instead of arriving
                # with a new one (no append happens between the rejection and the retry)
                r2 = rng.choice(recs)
                if free_u and rec["uri_prefix"] in free_u:
                    rec["prefix"] = r2.prefix
                elif free_c and rec["prefix"] in free_c:
                    rec["uri_prefix"] = r2.uri_prefix
                rec["_force_merge"] = True
        elif rel == "syn_case_only":
            # fresh canonical names; the only link to an existing record is a synonym of the submission that
            # equals one of its names up to case (either side)
            rec["prefix"] = take(fresh_c, cfg["curie_pool"])
            rec["uri_prefix"] = take(fresh_u, cfg["uri_pool"])
            if rng.random() < 0.5:
                vs = [v for v in (swapcase_variant(t) for t in sorted(r1.all_prefixes())) if v]
                rec["prefix_synonyms"].append(rng.choice(vs) if vs else rng.choice(sorted(r1.all_prefixes())))
            else:
                vs = [v for v in (swapcase_variant(t) for t in sorted(r1.all_uri_prefixes())) if v]
                rec["uri_prefix_synonyms"].append(rng.choice(vs) if vs else rng.choice(sorted(r1.all_uri_prefixes())))
        elif rel == "syn_vs_canon":
            # the submission's *synonym* hits an existing canonical value (or synonym)
            rec["prefix"] = take(fresh_c, cfg["curie_pool"])
            rec["uri_prefix"] = take(fresh_u, cfg["uri_pool"])
            if rng.random() < 0.5:
                rec["prefix_synonyms"].append(rng.choice(sorted(r1.all_prefixes())))
            else:
                rec["uri_prefix_synonyms"].append(rng.choice(sorted(r1.all_uri_prefixes())))
        # extra synonyms (fresh, so they neither clash nor repeat)
        if rel in ("new_synonyms_only",) or rng.random() < 0.5:
            for _ in range(rng.randint(0, 2)):
                if fresh_c and rng.random() < 0.6:
                    rec["prefix_synonyms"].append(take(fresh_c, cfg["curie_pool"]))
                if fresh_u and rng.random() < 0.6:
                    rec["uri_prefix_synonyms"].append(take(fresh_u, cfg["uri_pool"]))
        if rel not in ("identical", "invalid") and rng.random() < 0.05:
            # a big submission: many synonyms on both sides (invented names, never clashing)
            n = self.steps
            rec["prefix_synonyms"] += [f"bs{n}_{i}" for i in range(rng.choice([5, 8, 12]))]
            rec["uri_prefix_synonyms"] += [f"bs:{n}/{i}/" for i in range(rng.choice([5, 8, 12]))]
        if rel != "identical" and rng.random() < 0.2:
            # spellings of the submission's own tokens that differ only by case
            if rng.random() < 0.5:
                vs = [v for v in (swapcase_variant(t) for t in [rec["prefix"], *rec["prefix_synonyms"]]) if v]
                if vs:
                    rec["prefix_synonyms"].append(rng.choice(vs))
            else:
                vs = [v for v in (swapcase_variant(t) for t in [rec["uri_prefix"], *rec["uri_prefix_synonyms"]]) if v]
                if vs:
                    rec["uri_prefix_synonyms"].append(rng.choice(vs))
        if rel == "invalid":
            if rng.random() < 0.5:
                rec["prefix_synonyms"].append(rec["prefix"])
            else:
                rec["uri_prefix_synonyms"].append(rec["uri_prefix"])
        # keep the submission itself a valid Record unless it is meant to be invalid
        if rel != "invalid":
            rec["prefix_synonyms"] = [s for s in dict.fromkeys(rec["prefix_synonyms"]) if s != rec["prefix"]]
            rec["uri_prefix_synonyms"] = [s for s in dict.fromkeys(rec["uri_prefix_synonyms"]) if s != rec["uri_prefix"]]
            if rng.random() < 0.06:
                # a synonym listed twice in its own record (a valid Record: only the canonical value may not
                # be among the synonyms) - lists concatenated from several sources look like this
                side = "prefix_synonyms" if rng.random() < 0.5 else "uri_prefix_synonyms"
                if rec[side]:
                    rec[side].append(rng.choice(rec[side]))
                    rec["_repeat"] = True
        return rec

    @staticmethod
    def simplify_op(op):
        if op["op"] == "start":
            for key in ("records", "records2"):
                for i in range(len(op.get(key, []))):
                    c = copy.deepcopy(op)
                    del c[key][i]
                    yield c
                for i, r in enumerate(op.get(key, [])):
                    for k2 in ("uri_prefix_synonyms", "prefix_synonyms"):
                        for j in range(len(r[k2])):
                            c = copy.deepcopy(op)
                            del c[key][i][k2][j]
                            yield c
                    if r.get("pattern"):
                        c = copy.deepcopy(op)
                        c[key][i]["pattern"] = None
                        yield c
            if op["kind"] not in ("ctor", "empty"):
                yield dict(copy.deepcopy(op), kind="ctor")
            if op.get("delimiter") != ":":
                yield dict(copy.deepcopy(op), delimiter=":")
        if op["op"] == "flood":
            for n2 in (600, 2600, 7000):
                if n2 < op["n"]:
                    yield dict(op, n=n2)
        if op["op"] in ("add_record", "add_prefix"):
            r = op["record"]
            for k2 in ("uri_prefix_synonyms", "prefix_synonyms"):
                for j in range(len(r[k2])):
                    c = copy.deepcopy(op)
                    del c["record"][k2][j]
                    yield c
            if r.get("pattern"):
                c = copy.deepcopy(op)
                c["record"]["pattern"] = None
                yield c
            if not op["case_sensitive"]:
                yield dict(copy.deepcopy(op), case_sensitive=True)
            if op["op"] == "add_record" and not op.get("same_object") and r.get("pattern") is None:
                yield dict(copy.deepcopy(op), op="add_prefix")

    # ------------------------------------------------------------ execution
    def _snapshot(self):
        return observe.snapshot(self.conv, self.strings, self.pairs, full=True, ordered=True)

    def _start(self, op):
        c = self.curies
        Record, Converter = c.Record, c.Converter
        kind = op["kind"]
        delim = op.get("delimiter", ":")
        recs = op.get("records", [])
        self.event("start_" + kind)
        try:
            if kind == "empty":
                conv = Converter([], delimiter=delim)
            elif kind == "ctor":
                conv = Converter(tokens.as_container(op.get("container", "list"), [Record(**r) for r in recs]),
                                 delimiter=delim)
            elif kind == "epm":
                conv = Converter.from_extended_prefix_map([dict(r) for r in recs], delimiter=delim)
            elif kind == "prefix_map":
                conv = Converter.from_prefix_map({r["prefix"]: r["uri_prefix"] for r in recs}, delimiter=delim)
            elif kind == "priority":
                conv = Converter.from_priority_prefix_map(
                    {r["prefix"]: [r["uri_prefix"], *r["uri_prefix_synonyms"]] for r in recs}, delimiter=delim)
            elif kind == "reverse":
                rpm = {}
                for r in recs:
                    for u in [r["uri_prefix"], *r["uri_prefix_synonyms"]]:
                        rpm[u] = r["prefix"]
                conv = Converter.from_reverse_prefix_map(rpm, delimiter=delim)
            elif kind == "chain":
                c1 = Converter([Record(**r) for r in recs])
                c2 = Converter([Record(**r) for r in op.get("records2", [])])
                conv = c.chain([c1, c2], case_sensitive=op.get("case_sensitive", True))
                self.probe("start_from_chain")
            elif kind in ("remap_curie", "remap_uri", "rewire"):
                from curies import reconciliation

                base = Converter([Record(**r) for r in recs])
                fn = {"remap_curie": reconciliation.remap_curie_prefixes, "remap_uri": reconciliation.remap_uri_prefixes,
                      "rewire": reconciliation.rewire}[kind]
                conv = fn(base, {k: v for k, v in op.get("mapping", [])})
                self.probe("start_from_reconciliation")
            elif kind == "sub":
                parent = Converter([Record(**r) for r in recs])
                conv = parent.get_subconverter(op.get("prefixes", []))
                self.probe("start_from_subconverter")
            else:
                conv = Converter([], delimiter=delim)
        except Exception:  # noqa: BLE001
            # a start state that cannot be built (e.g. a bridging chain) is not the
            # business of this property: fall back to the empty converter
            self.event("start_failed_fallback_empty")
            conv = Converter([], delimiter=delim)
        self.conv = conv
        self.delimiter0 = conv.delimiter      # a configuration of the converter: no add may change it
        # "starting from any strict converter": the model starts at whatever the
        # real start converter's records are
        dumps = [observe.record_dump(r) for r in conv.records]
        self.model = RecordSetModel.from_dumps(dumps)
        self.started = True
        self.note_state(self.model.keys(), "start", kind)
        if self.observe_every > 1:
            # the start converter is not queried at all before the first add
            self.snap = None
            self.dirty = True
            self.probe("start_converter_not_observed")
            return {"start": kind, "n": len(dumps), "snap": None}
        self.snap = self._snapshot()
        self._check_consistent(self.snap, "start:" + kind, submitted=None, target=None)
        return {"start": kind, "n": len(dumps), "snap": observe.stable_digest(self.snap)}

    def apply(self, op):
        if op["op"] == "start":
            return self._start(op)
        if not self.started:
            self._start({"op": "start", "kind": "empty", "delimiter": self.config["delimiter"]})
        if op["op"] == "flood":
            return self._flood(op)
        c = self.curies
        conv = self.conv
        rd = op["record"]
        site = "Converter." + op["op"]
        cs, merge = op["case_sensitive"], op["merge"]
        # The submission as a Record of the library under test. "Over all records": what the Record class
        # makes of the caller's data (say, an empty pattern stored as no pattern) IS the record the
        # property speaks about, so the model is fed from the constructed object, not from the op; data
        # the Record class refuses to build is not a record and the call is not made (an irregular
        # submission - see irregular() - is the exception: its refusal is the known one).
        irr = irregular(rd)
        robj, cerr = None, None
        if op["op"] == "add_record" and op.get("same_object") and self.last_record_obj is not None:
            robj = self.last_record_obj
            self.probe("same_object_twice")
        else:
            try:
                robj = c.Record(**(rd if op["op"] == "add_record" else dict(rd, pattern=None)))
            except Exception as e:  # noqa: BLE001
                cerr = e
        if cerr is not None and (not irr or op["op"] == "add_record"):
            # (an irregular submission to add_prefix is still made: the library builds that Record itself)
            self.event("submission_not_constructible_as_Record")
            return {"result": "not_a_record"}
        if robj is not None:
            rd = observe.record_dump(robj)
        if op["op"] == "add_prefix" and not irr:
            # add_prefix is "build a Record from the arguments, then add_record": what it builds (it may
            # leave out blank or redundant entries of the collections) is seen by making the same call on a
            # converter WITHOUT records; that record is the submission the model is fed
            eff = self._built_by_add_prefix(op, cs, merge)
            if eff is not None and eff != rd:
                # ... but a name of the submission that is MISSING from that record only counts as left out
                # by design if add_prefix also leaves it out when it is the only synonym given (a blank); a
                # name that disappears because of its company (a case twin in the same collection, say) is a
                # name the caller registered and that must resolve
                lost_c = [n for n in rd["prefix_synonyms"] if n not in [eff["prefix"], *eff["prefix_synonyms"]]]
                lost_u = [n for n in rd["uri_prefix_synonyms"] if n not in [eff["uri_prefix"], *eff["uri_prefix_synonyms"]]]
                if all(self._dropped_alone(n, "c") for n in lost_c) and all(self._dropped_alone(n, "u") for n in lost_u):
                    self.event("add_prefix_builds_another_record_than_its_arguments_spell")
                    rd = eff
                else:
                    self.event("add_prefix_loses_a_name_because_of_its_company")
        mrec = MRecord.from_dump(rd)
        self.last_names = [rd["prefix"], *rd["prefix_synonyms"]][:4]
        self.n_calls += 1
        if self.observe_every > 1 and self.n_calls % self.observe_every != 0:
            return self._apply_unobserved(op, rd, mrec, site, cs, merge, robj, cerr, irr)
        if self.dirty:
            self._catch_up(site)
        pre = self.snap
        # query - add - query on the very strings the submission is about: the last lookups before the
        # call and the first lookups after it are the same (what a last-lookup memo would get wrong)
        d = self.delimiter0
        fstrings = list(dict.fromkeys(
            [p + d + "1" for p in [rd["prefix"], *rd["prefix_synonyms"]][:3]]
            + [u + "1" for u in [rd["uri_prefix"], *rd["uri_prefix_synonyms"]][:3]]
            + [rd["prefix"], rd["uri_prefix"]]))
        fpairs = [(p, "1") for p in [rd["prefix"], *rd["prefix_synonyms"]][:3]]
        # ... and on OTHER names of the record the submission is going to be merged into (names the
        # submission does not mention), and on one unrelated registered name
        hit = self.model.matches(mrec, cs)
        others_c, others_u = [], []
        if len(hit) == 1:
            others_c = [p for p in sorted(hit[0].all_prefixes()) if p not in mrec.all_prefixes()][:2]
            others_u = [u for u in sorted(hit[0].all_uri_prefixes()) if u not in mrec.all_uri_prefixes()][:2]
            if others_c or others_u:
                self.probe("focus_on_unmentioned_name_of_merge_target")
        unrelated = [r for r in self.model.records if r not in hit][:1]
        extra_strings = [p + d + "1" for p in others_c] + [u + "1" for u in others_u] + \
                        [r.prefix + d + "1" for r in unrelated] + [r.uri_prefix + "1" for r in unrelated]
        extra_pairs = [(p, "1") for p in others_c] + [(r.prefix, "1") for r in unrelated]
        if self.n_calls % 2:
            fstrings = list(dict.fromkeys(fstrings + extra_strings))       # the unmentioned names are asked last
            fpairs = list(dict.fromkeys(fpairs + extra_pairs))
        else:
            fstrings = list(dict.fromkeys(extra_strings + fstrings))
            fpairs = list(dict.fromkeys(extra_pairs + fpairs))
        pre_focus = observe.answers(conv, fstrings, fpairs, full=False)
        self.focus = (fstrings, fpairs)
        if self.n_calls % 3 == 0 and fpairs:
            # ... and once more, one single key, as the very last lookup before the call
            observe.answers(conv, fstrings[-1:], fpairs[-1:], full=False)

        if op["op"] == "add_prefix":
            self.probe("coll_" + op.get("coll", "list"))
        # "is it known? - no - register it - use it": ONE lookup of ONE name of the submission through ONE
        # method is the very last thing asked before the call and the very first thing asked after it
        single = self._single_key(rd, d)
        pre_single = observe.callm(conv, single[0], *single[1], **single[2])
        # records, views and index dictionaries are read immediately before and immediately after the call,
        # with no lookup of the harness in between (what a lookup does to them is not the call's doing)
        pre_struct = observe.structure(conv)
        err = self._call(op, robj, cerr, cs, merge)
        post_struct = observe.structure(conv)
        post_single = observe.callm(conv, single[0], *single[1], **single[2])
        self.single = (single, post_single)
        self.probe("single_key_asked_last_before_and_first_after")

        before_tokens_c = set(self.model.all_curie_tokens())
        before_tokens_u = set(self.model.all_uri_tokens())
        saved_model = copy.deepcopy(self.model) if err is not None else None
        if irr:
            self.probe("irregular_submission_" + ("refused" if err is not None else "accepted"))
            if err is not None and (isinstance(err, ValueError) or cerr is not None or _regex_refusal(irr, err)):
                outcome, target = "reject_irregular", None        # refusing it is fine; nothing may have changed
            else:
                cleaned = MRecord(mrec.prefix, mrec.uri_prefix, mrec.prefix_synonyms - {mrec.prefix},
                                  mrec.uri_prefix_synonyms - {mrec.uri_prefix}, mrec.pattern)
                mrec = cleaned
                outcome, target = self.model.add(cleaned, cs, merge)
        else:
            outcome, target = self.model.add(mrec, cs, merge)
        if isinstance(err, ValueError) and not outcome.startswith("reject") and self._refused_on_its_own(op, robj, cs, merge):
            # refused although it matches nothing - and an EMPTY converter with the same delimiter refuses it
            # too: the reason lies in the submission itself (a validation the property does not regulate),
            # not in the records. Nothing may have changed.
            self.model = saved_model
            outcome, target = "reject_own_reason", None
            self.probe("refused_for_a_reason_of_its_own")
        self.event(op["op"])
        self.event("model_" + outcome)
        if op.get("omit_defaults") and (cs is True or merge is False):
            self.probe("flag_left_to_its_default")
        # the first lookups after the call, in REVERSED order: for every method the first key asked now is
        # the last key asked before the call
        post_focus = observe.answers(conv, fstrings[::-1], fpairs[::-1], full=False)
        post = self._snapshot()

        if err is not None:
            if not isinstance(err, ValueError) and not (cerr is not None and type(err) is type(cerr)) and not _regex_refusal(irr, err):
                # (the class with which the Record class itself refuses a submission is not judged)
                raise Violation(PROP, "wrong_exception", site, {"exception": type(err).__name__, "op": op})
            if post_struct != pre_struct or post["answers"] != pre["answers"] or post_focus != pre_focus or post_single != pre_single:
                raise Violation(PROP, "rejected_changed_state", site,
                                {"exception": type(err).__name__,
                                 "diff": observe.diff(pre_struct, post_struct, path="/structure")
                                 or observe.diff(pre["answers"], post["answers"], path="/answers")
                                 or observe.diff(pre_focus, post_focus)
                                 or [{"lookup": [single[0], list(single[1])], "before": pre_single, "after": post_single}],
                                 "op": op})
            if not outcome.startswith("reject"):
                # undo nothing: the model already moved; report
                raise Violation(PROP, "accept_reject_mismatch", site,
                                {"real": "rejected:" + type(err).__name__, "model": outcome, "op": op})
            self.n_reject += 1
            if outcome not in ("reject_invalid", "reject_irregular", "reject_own_reason") and not op.get("same_object"):
                self.rejected.append({"op": op["op"], "record": copy.deepcopy(op["record"]),
                                      "case_sensitive": cs, "merge": merge})
            if op.get("relation") == "retry_rejected":
                self.probe("retry_rejected_again_rejected")
            self.fault("rejected_call")
            if outcome != "reject_own_reason":
                self.probe(outcome)
            result = "rejected"
        else:
            if outcome.startswith("reject"):
                raise Violation(PROP, "accept_reject_mismatch", site,
                                {"real": "accepted", "model": outcome, "op": op,
                                 "diff": observe.diff(pre["structure"], post["structure"])})
            self._check_consistent(post, site, submitted=mrec, target=target, op=op, live_focus=post_focus)
            if outcome == "merge_new":
                self.n_merge_new += 1
                if not cs:
                    self.probe("merge_case_insensitive")
                if mrec.all_prefixes() <= before_tokens_c and not (mrec.all_uri_prefixes() <= before_tokens_u):
                    self.probe("merge_adds_uri_synonym_only")
                if target.pattern and mrec.pattern and target.pattern != mrec.pattern:
                    self.probe("merge_keeps_pattern")
                if self.config["start_kind"] not in ("empty",):
                    self.probe("merge_into_start_built")
            if op.get("relation") == "retry_rejected":
                self.probe("retry_rejected_now_accepted")
            if op.get("relation") == "other_side_of_rejected" and outcome == "append":
                self.probe("other_side_of_rejected_appended")
            if op.get("relation") == "other_side_of_rejected" and outcome == "merge_new":
                self.probe("other_side_of_rejected_merged_elsewhere")
            folded = [t.casefold() for t in sorted(mrec.all_prefixes())] + ["|"] + [t.casefold() for t in sorted(mrec.all_uri_prefixes())]
            if len(set(folded)) < len(folded):
                self.probe("submission_with_own_case_variants")
            if len(self.model.records) >= 20:
                self.probe("large_converter")
            if len(self.model.records) > 257 and target is not None and outcome.startswith("merge"):
                try:
                    pos = [r.prefix for r in self.model.records].index(target.prefix)
                except ValueError:
                    pos = -1
                if pos >= 257:
                    self.probe("merge_into_record_past_position_256")
            if len(mrec.prefix_synonyms) >= 5:
                self.probe("big_submission")
            rd0 = op["record"]
            if len(rd0["prefix_synonyms"]) != len(set(rd0["prefix_synonyms"])) or \
                    len(rd0["uri_prefix_synonyms"]) != len(set(rd0["uri_prefix_synonyms"])):
                self.probe("synonym_repeated_in_own_record")
            if "" in mrec.all_prefixes():
                self.probe("empty_prefix_token")
            if "" in mrec.all_uri_prefixes():
                self.probe("empty_uri_prefix_token")
            result = "accepted"
        self.snap = post
        self.note_state(self.model.keys(), op["op"], outcome)
        return {"result": result, "model": outcome, "snap": observe.stable_digest(post)}

    def _extras(self, conv):
        if getattr(self, "_xdir", None) is None:
            self._xdir = observe.scratch_dir("c05x_")
        out = {"written_epm": observe.written_extended_prefix_map(self.curies, conv, self._xdir),
               "bulk": observe.bulk_answers(conv, self.bulk_cells, self._xdir)}
        # what functions that CONSUME the converter make of it (they read per-record state that no query reads)
        names = list(dict.fromkeys(list(getattr(self, "last_names", [])) + sorted(r.prefix for r in conv.records)[:2]))[:6]

        def keys(conv2):
            return real_keys([observe.record_dump(r) for r in conv2.records])

        out["get_subconverter"] = {n: observe.call(lambda n=n: keys(conv.get_subconverter([n]))) for n in names}
        out["chain_self"] = observe.call(lambda: keys(self.curies.chain([conv])))
        return out

    def close(self):
        if getattr(self, "_xdir", None) is not None:
            import shutil

            shutil.rmtree(self._xdir, ignore_errors=True)
            self._xdir = None

    def _flood(self, op):
        """Thousands of distinct throw-away lookups through every kind of query (what converting a big
        column does); a spread of them is asked again - of the live and of the fresh converter - after
        every later observed call."""
        self.flood_done = True
        conv, d = self.conv, self.delimiter0
        cp, up = self.config["curie_pool"], self.config["uri_pool"]
        cm = [("expand", {}), ("expand_all", {}), ("standardize_curie", {}), ("is_curie", {}), ("parse_curie", {}),
              ("expand_or_standardize", {})]
        um = [("compress", {}), ("parse_uri", {"return_none": True}), ("is_uri", {}), ("standardize_uri", {}),
              ("compress_or_standardize", {})]
        asked = []
        for i in range(int(op["n"])):
            if i % 3 == 0:
                m, kw = um[(i // 3) % len(um)]
                q = (m, (up[i % len(up)] + "f" + str(i),), kw)
            elif i % 3 == 1:
                m, kw = cm[(i // 3) % len(cm)]
                q = (m, (cp[i % len(cp)] + d + "f" + str(i),), kw)
            else:
                q = [("get_record", (cp[i % len(cp)] + "f" + str(i),), {}), ("expand_pair", (cp[i % len(cp)], "f" + str(i)), {}),
                     ("expand_pair_all", (cp[i % len(cp)], "f" + str(i)), {})][(i // 3) % 3]
            observe.callm(conv, q[0], *q[1], **q[2])
            asked.append(q)
        step = max(1, len(asked) // 40)
        self.flood_sample = asked[::step] + asked[:6] + asked[-6:]
        self.probe("flood_of_lookups")
        if len(asked) > 2048:
            self.probe("flood_of_more_than_2048_lookups")
        if not self.dirty:
            self._check_consistent(self.snap, "flood of lookups", submitted=None, target=None)
        return {"flood": len(asked)}

    def _dropped_alone(self, name, side):
        memo = self.__dict__.setdefault("_alone", {})
        if (name, side) not in memo:
            c = self.curies
            try:
                e = c.Converter([], delimiter=self.delimiter0)
                if side == "c":
                    e.add_prefix("zzq", "zzq:", prefix_synonyms=[name])
                    memo[(name, side)] = name not in e.records[0].prefix_synonyms
                else:
                    e.add_prefix("zzq", "zzq:", uri_prefix_synonyms=[name])
                    memo[(name, side)] = name not in e.records[0].uri_prefix_synonyms
            except Exception:  # noqa: BLE001
                memo[(name, side)] = True
        return memo[(name, side)]

    def _built_by_add_prefix(self, op, cs, merge):
        c = self.curies
        r0 = op["record"]
        try:
            e = c.Converter([], delimiter=self.delimiter0)
            coll = COLLECTION_TYPES[op.get("coll", "list")]
            kw = {}
            if r0["prefix_synonyms"] or op.get("coll", "list") != "omit":
                kw["prefix_synonyms"] = coll(r0["prefix_synonyms"])
            if r0["uri_prefix_synonyms"] or op.get("coll", "list") != "omit":
                kw["uri_prefix_synonyms"] = coll(r0["uri_prefix_synonyms"])
            e.add_prefix(r0["prefix"], r0["uri_prefix"], **flag_kwargs(op, cs, merge), **kw)
            if len(e.records) != 1:
                return None
            return observe.record_dump(e.records[0])
        except Exception:  # noqa: BLE001 - refused on its own: handled where the real call is judged
            return None

    def _refused_on_its_own(self, op, robj, cs, merge):
        """Does a converter WITHOUT records (same delimiter) refuse the same call with a ValueError too?"""
        c = self.curies
        try:
            empty = c.Converter([], delimiter=self.delimiter0)
        except Exception:  # noqa: BLE001
            return False
        rd = op["record"]
        try:
            if op["op"] == "add_record":
                if robj is None:
                    return False
                empty.add_record(c.Record(**observe.record_dump(robj)), **flag_kwargs(op, cs, merge))
            else:
                empty.add_prefix(rd["prefix"], rd["uri_prefix"], prefix_synonyms=list(rd["prefix_synonyms"]),
                                 uri_prefix_synonyms=list(rd["uri_prefix_synonyms"]), **flag_kwargs(op, cs, merge))
        except ValueError:
            return True
        except Exception:  # noqa: BLE001
            return False
        return False

    def _single_key(self, rd, d):
        """(method, args, kwargs): one query about one name of the submission, rotating with the call count."""
        combos = []
        for k in [rd["prefix"], *rd["prefix_synonyms"]][:4]:
            combos += [("get_record", (k,), {}), ("expand_pair_all", (k, "1"), {}), ("expand_all", (k + d + "1",), {}),
                       ("expand_pair", (k, "1"), {}), ("standardize_prefix", (k,), {}), ("expand", (k + d + "1",), {}),
                       ("parse_curie", (k + d + "1",), {}), ("get_record", (k,), {"strict": True}),
                       ("expand_or_standardize", (k + d + "1",), {}), ("standardize_curie", (k + d + "1",), {})]
        for u in [rd["uri_prefix"], *rd["uri_prefix_synonyms"]][:4]:
            combos += [("parse_uri", (u + "1",), {"return_none": True}), ("compress", (u + "1",), {}),
                       ("is_uri", (u + "1",), {}), ("standardize_uri", (u + "1",), {}),
                       ("compress_or_standardize", (u + "1",), {}), ("get_record", (u,), {})]
        return combos[(self.n_calls * 7 + len(combos) // 3) % len(combos)]

    def _call(self, op, robj, cerr, cs, merge):
        """The real call (shared by the observed and the unobserved path). Returns the exception or None.
        add_prefix is given the caller's data as the op has it (the library builds its own Record)."""
        conv = self.conv
        rd = op["record"]
        try:
            if op["op"] == "add_record":
                if robj is None:
                    raise cerr         # (irregular submission the Record class refused)
                self.last_record_obj = robj
                self.last_record_dump = observe.record_dump(robj)
                conv.add_record(robj, **flag_kwargs(op, cs, merge))
            else:
                coll = COLLECTION_TYPES[op.get("coll", "list")]
                kw = {}
                if rd["prefix_synonyms"] or op.get("coll", "list") != "omit":
                    kw["prefix_synonyms"] = coll(rd["prefix_synonyms"])
                if rd["uri_prefix_synonyms"] or op.get("coll", "list") != "omit":
                    kw["uri_prefix_synonyms"] = coll(rd["uri_prefix_synonyms"])
                conv.add_prefix(rd["prefix"], rd["uri_prefix"], **flag_kwargs(op, cs, merge), **kw)
        except Exception as e:  # noqa: BLE001
            return e
        return None

    def _apply_unobserved(self, op, rd, mrec, site, cs, merge, robj, cerr, irr):
        """A call after which the converter is NOT looked at: only accept / reject is judged now; what
        the call did to the converter is judged at the next observation (catch-up)."""
        err = self._call(op, robj, cerr, cs, merge)
        saved_model = copy.deepcopy(self.model) if err is not None else None
        if irr:
            if err is not None and (isinstance(err, ValueError) or cerr is not None or _regex_refusal(irr, err)):
                outcome = "reject_irregular"
            else:
                mrec = MRecord(mrec.prefix, mrec.uri_prefix, mrec.prefix_synonyms - {mrec.prefix},
                               mrec.uri_prefix_synonyms - {mrec.uri_prefix}, mrec.pattern)
                outcome, _ = self.model.add(mrec, cs, merge)
        else:
            outcome, _ = self.model.add(mrec, cs, merge)
        if isinstance(err, ValueError) and not outcome.startswith("reject") and self._refused_on_its_own(op, robj, cs, merge):
            self.model = saved_model
            outcome = "reject_own_reason"
            self.probe("refused_for_a_reason_of_its_own")
        self.event(op["op"])
        self.event("model_" + outcome)
        self.probe("call_not_observed")
        self.dirty = True
        self.snap = None
        if err is not None and not isinstance(err, ValueError) and not (cerr is not None and type(err) is type(cerr)) and not _regex_refusal(irr, err):
            raise Violation(PROP, "wrong_exception", site, {"exception": type(err).__name__, "op": op})
        if (err is not None) != outcome.startswith("reject"):
            raise Violation(PROP, "accept_reject_mismatch", site,
                            {"real": "rejected:" + type(err).__name__ if err else "accepted", "model": outcome, "op": op})
        if err is not None:
            self.n_reject += 1
            self.fault("rejected_call")
            if outcome not in ("reject_invalid", "reject_irregular", "reject_own_reason"):
                self.rejected.append({"op": op["op"], "record": copy.deepcopy(op["record"]),
                                      "case_sensitive": cs, "merge": merge})
        elif outcome == "merge_new":
            self.n_merge_new += 1
        self.note_state(self.model.keys(), op["op"], outcome)
        return {"result": "rejected" if err else "accepted", "model": outcome, "observed": False}

    def _catch_up(self, site):
        """First look at the converter after one or more unobserved calls: the full consistency check."""
        self.snap = self._snapshot()
        self.dirty = False
        self.probe("catch_up_observation")
        self._check_consistent(self.snap, site + "(first look after unobserved calls)", submitted=None, target=None)

    def finish(self):
        if self.dirty and self.conv is not None and self.model is not None:
            self._catch_up("end_of_history")

    def recover(self, op):
        # after a known finding: re-anchor model and snapshot at the real state
        if self.conv is not None:
            self.model = RecordSetModel.from_dumps([observe.record_dump(r) for r in self.conv.records])
            self.snap = self._snapshot()

    # ------------------------------------------------------------- oracles
    def _check_consistent(self, post, site, submitted, target, op=None, live_focus=None):
        c = self.curies
        conv = self.conv
        dumps = post["structure"]["records"]
        # oracle 2: record set equals the model's
        if real_keys(dumps) != self.model.keys():
            raise Violation(PROP, "records_mismatch", site,
                            {"real": real_keys(dumps), "model": self.model.keys(), "op": op})
        # oracle 3: one owner per CURIE prefix / URI prefix
        clashes = uniqueness_clashes(dumps)
        if clashes:
            raise Violation(PROP, "not_unique", site, {"clashes": clashes[:6], "op": op})
        # oracle 4: same answers as a converter freshly built from the current records (and the
        # delimiter the converter started with - read from memory, not from the live object)
        if conv.delimiter != self.delimiter0:
            raise Violation(PROP, "delimiter_changed", site,
                            {"started_with": self.delimiter0, "now": conv.delimiter, "op": op})
        try:
            # NEW Record objects from the public data of the current records (anything a record object
            # caches privately must not travel into the reference); only where the Record class refuses its
            # own record's data (a validator that is stricter than the functions that build records), a copy
            # of the object is used
            fresh_records = []
            for r, d in zip(conv.records, copy.deepcopy(dumps)):
                try:
                    nr = c.Record(**d)
                    if observe.record_dump(nr) != observe.record_dump(r):
                        raise ValueError("the Record class does not reproduce this record from its data")
                    fresh_records.append(nr)
                except Exception:  # noqa: BLE001
                    self.event("record_refused_or_altered_by_its_own_class_copied_instead")
                    fresh_records.append(copy.deepcopy(r))
            fresh = c.Converter(fresh_records, delimiter=self.delimiter0)
        except Exception as e:  # noqa: BLE001
            raise Violation(PROP, "fresh_construct_failed", site, {"exception": type(e).__name__, "op": op})
        fsnap = observe.snapshot(fresh, self.strings, self.pairs, full=True, ordered=False)
        live = {"structure": dict(post["structure"], records=sorted(dumps, key=observe.record_key)),
                "answers": post["answers"]}
        if fsnap != live:
            raise Violation(PROP, "fresh_mismatch", site, {"diff": observe.diff(fsnap, live), "op": op})
        if live_focus is not None and self.focus is not None:
            ffresh = observe.answers(fresh, self.focus[0][::-1], self.focus[1][::-1], full=False)
            if ffresh != live_focus:
                raise Violation(PROP, "fresh_mismatch", site,
                                {"first_lookups_after_the_call": True, "diff": observe.diff(ffresh, live_focus), "op": op})
            if getattr(self, "single", None) is not None:
                (m, a, kw), got = self.single
                want = observe.callm(fresh, m, *a, **kw)
                if want != got:
                    raise Violation(PROP, "fresh_mismatch", site,
                                    {"first_lookup_after_the_call": [m, list(a)], "fresh": want, "live": got, "op": op})
        # the serialised form and the bulk functions are answers too (state that only the writers or only the
        # bulk paths keep is invisible to the scalar queries)
        lx, fx = self._extras(conv), self._extras(fresh)
        if lx != fx:
            raise Violation(PROP, "fresh_mismatch", site,
                            {"written_or_bulk": True, "diff": observe.diff(fx, lx), "op": op})
        for m, a, kw in self.flood_sample:
            got, want = observe.callm(conv, m, *a, **kw), observe.callm(fresh, m, *a, **kw)
            if got != want:
                raise Violation(PROP, "fresh_mismatch", site,
                                {"lookup_from_an_earlier_flood": [m, list(a)], "fresh": want, "live": got, "op": op})
        # oracle 5: every prefix / URI prefix of the submission resolves to one record
        if submitted is not None and target is not None:
            t = target.prefix
            bad = []
            # the three index dictionaries are looked at when the converter has them (an attribute a
            # refactoring made private is not the property's business; get_record and parse_uri are)
            from collections.abc import Mapping as _Mapping

            s2p, pm, rpm = (getattr(conv, n, None) for n in ("synonym_to_prefix", "prefix_map", "reverse_prefix_map"))
            s2p, pm, rpm = (x if isinstance(x, _Mapping) else None for x in (s2p, pm, rpm))
            for p in sorted(submitted.all_prefixes()):
                try:
                    rec = conv.get_record(p)
                except Exception as e:  # noqa: BLE001
                    bad.append(["get_record", p, "raised " + type(e).__name__, t])
                    continue
                if rec is None or rec.prefix != t:
                    bad.append(["get_record", p, None if rec is None else rec.prefix, t])
                if s2p is not None and s2p.get(p) != t:
                    bad.append(["synonym_to_prefix", p, s2p.get(p), t])
                if pm is not None and pm.get(p) != target.uri_prefix:
                    bad.append(["prefix_map", p, pm.get(p), target.uri_prefix])
            for u in sorted(submitted.all_uri_prefixes()):
                if rpm is not None and rpm.get(u) != t:
                    bad.append(["reverse_prefix_map", u, rpm.get(u), t])
                if target.pattern is None:
                    # (with a pattern, whether the EMPTY identifier parses is not this property's business)
                    try:
                        ref = conv.parse_uri(u, return_none=True)
                    except Exception as e:  # noqa: BLE001
                        bad.append(["parse_uri", u, "raised " + type(e).__name__, t])
                        continue
                    if ref is None or ref[0] != t or ref[1] != "":
                        bad.append(["parse_uri", u, None if ref is None else list(ref), t])
                # ... and the expand side knows it too: every URI prefix of the record is among its expansions
                # (asked of records without a pattern only: whether "1" is a valid identifier is not the point)
                if target.pattern is None:
                    allx = observe.callm(conv, "expand_pair_all", t, "1")
                    if allx != observe.ABSENT and (allx[0] != "ok" or not isinstance(allx[1], list) or (u + "1") not in allx[1]):
                        bad.append(["expand_pair_all", [t, "1"], allx, u + "1"])
            if bad:
                raise Violation(PROP, "new_record_unresolved", site, {"bad": bad[:6], "op": op})

    def nontrivial(self):
        return self.n_merge_new >= 1 and self.n_reject >= 1
