"""Reference models, written from the property statements (not from the code)."""
from __future__ import annotations


# --------------------------------------------------------------------- C01
class OwnerMap:
    """uri prefix -> canonical CURIE prefix of the record owning it."""

    def __init__(self):
        self.owners = {}

    def register(self, uri_prefix, canonical_prefix):
        self.owners[uri_prefix] = canonical_prefix

    def longest(self, u):
        best = None
        for p in self.owners:
            if u.startswith(p) and (best is None or len(p) > len(best)):
                best = p
        return best

    def matching(self, u):
        return [p for p in self.owners if u.startswith(p)]

    def parse(self, u):
        p = self.longest(u)
        if p is None:
            return None
        return (self.owners[p], u[len(p):])

    def compress(self, u, delimiter):
        r = self.parse(u)
        if r is None:
            return None
        return r[0] + delimiter + r[1]


# --------------------------------------------------------------------- C05
class MRecord:
    __slots__ = ("prefix", "uri_prefix", "prefix_synonyms", "uri_prefix_synonyms", "pattern")

    def __init__(self, prefix, uri_prefix, prefix_synonyms=(), uri_prefix_synonyms=(), pattern=None):
        self.prefix = prefix
        self.uri_prefix = uri_prefix
        self.prefix_synonyms = set(prefix_synonyms)
        self.uri_prefix_synonyms = set(uri_prefix_synonyms)
        self.pattern = pattern

    @classmethod
    def from_dump(cls, d):
        return cls(d["prefix"], d["uri_prefix"], d.get("prefix_synonyms") or (),
                   d.get("uri_prefix_synonyms") or (), d.get("pattern"))

    def all_prefixes(self):
        return {self.prefix} | self.prefix_synonyms

    def all_uri_prefixes(self):
        return {self.uri_prefix} | self.uri_prefix_synonyms

    def key(self):
        return (self.prefix, self.uri_prefix, tuple(sorted(self.prefix_synonyms)),
                tuple(sorted(self.uri_prefix_synonyms)), self.pattern)

    def valid(self):
        return self.prefix not in self.prefix_synonyms and self.uri_prefix not in self.uri_prefix_synonyms


def _fold(s, case_sensitive):
    return s if case_sensitive else s.casefold()


class RecordSetModel:
    """The record set a history of add operations denotes (property C05)."""

    def __init__(self, records=()):
        self.records = list(records)

    @classmethod
    def from_dumps(cls, dumps):
        return cls([MRecord.from_dump(d) for d in dumps])

    def matches(self, rec, case_sensitive):
        ps = {_fold(p, case_sensitive) for p in rec.all_prefixes()}
        us = {_fold(u, case_sensitive) for u in rec.all_uri_prefixes()}
        out = []
        for r in self.records:
            rp = {_fold(p, case_sensitive) for p in r.all_prefixes()}
            ru = {_fold(u, case_sensitive) for u in r.all_uri_prefixes()}
            if ps & rp or us & ru:
                out.append(r)
        return out

    def add(self, rec, case_sensitive=True, merge=False):
        """Returns (outcome, target record or None); mutates only on acceptance."""
        if not rec.valid():
            return "reject_invalid", None
        m = self.matches(rec, case_sensitive)
        if len(m) > 1:
            return "reject_multi", None
        if len(m) == 1:
            if not merge:
                return "reject_nomerge", None
            into = m[0]
            new_p = rec.all_prefixes() - into.all_prefixes()
            new_u = rec.all_uri_prefixes() - into.all_uri_prefixes()
            into.prefix_synonyms |= new_p
            into.uri_prefix_synonyms |= new_u
            return ("merge_new" if (new_p or new_u) else "merge_noop"), into
        mine = MRecord(rec.prefix, rec.uri_prefix, rec.prefix_synonyms, rec.uri_prefix_synonyms, rec.pattern)
        self.records.append(mine)
        return "append", mine

    def keys(self):
        return sorted(r.key() for r in self.records)

    def all_curie_tokens(self):
        out = []
        for r in self.records:
            out.extend(sorted(r.all_prefixes()))
        return out

    def all_uri_tokens(self):
        out = []
        for r in self.records:
            out.extend(sorted(r.all_uri_prefixes()))
        return out


def real_keys(dumps):
    """Real records in the same form as RecordSetModel.keys()."""
    return sorted(
        (d["prefix"], d["uri_prefix"], tuple(sorted(set(d["prefix_synonyms"]))),
         tuple(sorted(set(d["uri_prefix_synonyms"]))), d["pattern"])
        for d in dumps
    )


def uniqueness_clashes(dumps):
    """CURIE / URI prefixes held by more than one record (C04's uniqueness)."""
    clashes = []
    for side, canon, syn in (("prefix", "prefix", "prefix_synonyms"),
                             ("uri_prefix", "uri_prefix", "uri_prefix_synonyms")):
        owner = {}
        for i, d in enumerate(dumps):
            for t in {d[canon], *d[syn]}:
                if t in owner and owner[t] != i:
                    clashes.append([side, t])
                owner[t] = i
    return clashes
