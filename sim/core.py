"""Machine base class, the run loop and replay.

One integer decides a run: ``random.Random(run_seed)`` is the only source of
choice.  It is consulted by ``draw_config`` and ``gen_op`` only; ``apply``,
logging, evidence and minimisation never touch it, and no clock is read here.
"""
from __future__ import annotations

import hashlib
import json
import random
from collections import Counter


class Violation(Exception):
    """A property violation observed against the real code."""

    def __init__(self, prop, kind, site, detail=None):
        super().__init__(f"{prop}:{kind}:{site}")
        self.prop = prop
        self.kind = kind
        self.site = site
        self.detail = detail or {}

    @property
    def signature(self):
        return f"{self.prop}:{self.kind}:{self.site}"

    def to_json(self):
        return {
            "property": self.prop, "kind": self.kind, "site": self.site,
            "signature": self.signature, "detail": self.detail,
        }


def run_seed_for(base_seed: int, prop: str, tier: str, index: int) -> int:
    h = hashlib.sha256(f"{base_seed}:{prop}:{tier}:{index}".encode()).hexdigest()
    return int(h[:16], 16)


def h64(value) -> int:
    s = json.dumps(value, sort_keys=True, ensure_ascii=True, separators=(",", ":"))
    return int.from_bytes(hashlib.sha256(s.encode()).digest()[:8], "big")


class Machine:
    """Base class of the four property machines."""

    PROP = "C00"

    def __init__(self, config, known=frozenset()):
        self.config = config
        self.known = frozenset(known)
        self.stats = Counter()
        self.states = set()
        self.transitions = set()
        self.known_hits = []
        self._log = hashlib.sha256()
        self.steps = 0

    # -- to be provided by subclasses ------------------------------------
    @classmethod
    def draw_config(cls, rng, tier):
        raise NotImplementedError

    def gen_op(self, rng):
        raise NotImplementedError

    def apply(self, op):
        raise NotImplementedError

    def recover(self, op):
        """Bring the oracle's expectations back in line after a *known* violation."""

    def finish(self):
        """End-of-run checks."""

    def nontrivial(self):
        return False

    def close(self):
        pass

    # -- common ----------------------------------------------------------
    def probe(self, name, n=1):
        self.stats["probe:" + name] += n

    def event(self, name, n=1):
        self.stats["event:" + name] += n

    def fault(self, name, n=1):
        self.stats["fault:" + name] += n

    def note_state(self, state_value, op_kind=None, outcome=None):
        sh = h64(state_value)
        self.states.add(sh)
        if op_kind is not None:
            self.transitions.add(h64([getattr(self, "_prev_state", 0), op_kind, outcome, sh]))
        self._prev_state = sh

    def _library_exception(self, e, op):
        """An exception that escaped from the library through a call no machine expected to fail.

        Safety net: every call a property judges is wrapped where it is made; what arrives here was
        raised *inside curies* (innermost traceback frame under the source tree being checked) by a call
        that always succeeds on a correct tree.  It is reported as a violation with a replay rather than
        allowed to kill the worker; an exception raised in harness code is re-raised as it is.
        """
        from .env import HarnessError, REPO_SRC
        import traceback

        if isinstance(e, (HarnessError, KeyboardInterrupt, MemoryError)):
            return None
        frames = traceback.extract_tb(e.__traceback__)
        if not frames or not frames[-1].filename.startswith(REPO_SRC):
            return None
        where = frames[-1]
        return Violation(self.PROP, "unexpected_library_exception", str(op.get("op", "?")),
                         {"exception": type(e).__name__, "message": str(e)[:200],
                          "raised_at": f"{where.filename[len(REPO_SRC):]}:{where.lineno} in {where.name}", "op": op})

    def log(self, value):
        self._log.update(
            json.dumps(value, sort_keys=True, ensure_ascii=True, separators=(",", ":")).encode()
        )
        self._log.update(b"\n")

    def digest(self):
        return self._log.hexdigest()

    def step(self, op):
        self.steps += 1
        try:
            outcome = self.apply(op)
        except Exception as e:  # noqa: BLE001
            v = e if isinstance(e, Violation) else self._library_exception(e, op)
            if v is None:
                raise            # raised by the harness itself: a harness error, never a violation
            if v.signature in self.known:
                self.known_hits.append(v.signature)
                self.log(["known", v.signature])
                self.recover(op)
                return {"known": v.signature}
            self.log(["violation", v.signature])
            if v is e:
                raise
            raise v from e
        self.log([op, outcome])
        return outcome


def _finish(m):
    """End-of-run checks under the same safety net as a step."""
    try:
        m.finish()
    except Exception as e:  # noqa: BLE001
        v = e if isinstance(e, Violation) else m._library_exception(e, {"op": "finish"})
        if v is None:
            raise
        if v.signature in m.known:
            m.known_hits.append(v.signature)
            m.log(["known", v.signature])
            return
        m.log(["violation", v.signature])
        if v is e:
            raise
        raise v from e


def get_machine(prop):
    if prop == "C01":
        from .props.c01 import C01Machine as M
    elif prop == "C05":
        from .props.c05 import C05Machine as M
    elif prop == "C10":
        from .props.c10 import C10Machine as M
    elif prop == "C16":
        from .props.c16 import C16Machine as M
    else:
        raise KeyError(prop)
    return M


def run_one(prop, run_seed, tier, known=frozenset(), keep_trace=True):
    """One exactly repeatable simulated run. Returns a JSON-able result dict."""
    M = get_machine(prop)
    rng = random.Random(run_seed)
    config = M.draw_config(rng, tier)
    m = M(config, known)
    ops = []
    violation = None
    try:
        try:
            for _ in range(config["max_ops"]):
                op = m.gen_op(rng)
                if op is None:
                    break
                ops.append(op)
                m.step(op)
            _finish(m)
            m.log(["finish"])
        except Violation as v:
            violation = v
    finally:
        m.close()
    return _result(m, prop, run_seed, tier, config, ops, violation, keep_trace)


def replay_trace(trace, known=frozenset()):
    """Re-execute a recorded operation list. No PRNG anywhere."""
    prop = trace["property"]
    M = get_machine(prop)
    m = M(trace["config"], known)
    violation = None
    try:
        try:
            for op in trace["ops"]:
                m.step(op)
            _finish(m)
            m.log(["finish"])
        except Violation as v:
            violation = v
    finally:
        m.close()
    return _result(m, prop, trace.get("seed"), trace.get("tier"), trace["config"], trace["ops"], violation, True)


def _result(m, prop, run_seed, tier, config, ops, violation, keep_trace):
    res = {
        "property": prop,
        "seed": run_seed,
        "tier": tier,
        "digest": m.digest(),
        "steps": m.steps,
        "stats": dict(m.stats),
        "states": sorted(m.states),
        "transitions": sorted(m.transitions),
        "nontrivial": bool(m.nontrivial()) and violation is None,
        "trace_digest": h64([config, ops]),
        "known_hits": list(m.known_hits),
        "violation": violation.to_json() if violation else None,
    }
    if keep_trace or violation:
        res["trace"] = {"property": prop, "seed": run_seed, "tier": tier, "config": config, "ops": ops}
    return res
