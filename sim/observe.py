"""The observable surface of a real converter as a canonical JSON value.

Not a model: everything in here is obtained by calling the real object.
Exception *messages* never enter a snapshot (they embed set/dict reprs); only
the exception type name does.
"""
from __future__ import annotations

import hashlib
import json

import itertools

_COUNTER = itertools.count()
MODES = [(False, False), (True, False), (False, True), (True, True)]
ABSENT = "<absent>"


def canon(v):
    """Canonical JSON-able form of anything curies returns."""
    if v is None or isinstance(v, (str, int, float, bool)):
        return v
    # containers first: a tuple stays a tuple whatever convenience methods its class grows
    if isinstance(v, (tuple, list)):
        return [canon(x) for x in v]
    if isinstance(v, (set, frozenset)):
        return sorted((canon(x) for x in v), key=lambda x: json.dumps(x, sort_keys=True))
    if isinstance(v, dict):
        return {str(k): canon(x) for k, x in v.items()}
    if hasattr(v, "model_dump"):
        d = canon(v.model_dump())
        return {"__model__": type(v).__name__, **d} if isinstance(d, dict) else {"__model__": type(v).__name__, "value": d}
    if hasattr(v, "items"):
        return {str(k): canon(x) for k, x in v.items()}
    return repr(v)


def call(f, *a, **k):
    try:
        return ["ok", canon(f(*a, **k))]
    except Exception as e:  # noqa: BLE001 - the type is the observation
        return ["exc", type(e).__name__]


def callm(obj, name, *a, **k):
    """``call`` of a method looked up by name; a method the object does not have is an observation
    (``ABSENT``), not a crash of the harness."""
    f = getattr(obj, name, None)
    if f is None:
        return ABSENT
    return call(f, *a, **k)


def record_dump(r):
    return {
        "prefix": r.prefix,
        "uri_prefix": r.uri_prefix,
        "prefix_synonyms": list(r.prefix_synonyms),
        "uri_prefix_synonyms": list(r.uri_prefix_synonyms),
        "pattern": r.pattern,
    }


def record_key(d):
    return json.dumps(d, sort_keys=True, ensure_ascii=True)


def _dictattr(conv, name):
    v = getattr(conv, name, None)
    if v is None:
        return ABSENT
    try:
        return {str(k): canon(x) for k, x in v.items()}
    except Exception as e:  # noqa: BLE001
        return ["exc", type(e).__name__]


def structure(conv, ordered=True):
    """Records, delimiter, introspection views and the index dictionaries."""
    # the views are asked first and ``records`` is read last: a view that tidies the list up lazily must not
    # make the list read a moment earlier stale
    views = {
        "get_prefixes": call(lambda: conv.get_prefixes()),
        "get_prefixes_syn": call(lambda: conv.get_prefixes(include_synonyms=True)),
        "get_uri_prefixes": call(lambda: conv.get_uri_prefixes()),
        "get_uri_prefixes_syn": call(lambda: conv.get_uri_prefixes(include_synonyms=True)),
        "bimap": call(lambda: dict(conv.bimap)),
        "reverse_bimap": call(lambda: dict(conv.reverse_bimap)),
        "prefix_map": _dictattr(conv, "prefix_map"),
        "reverse_prefix_map": _dictattr(conv, "reverse_prefix_map"),
        "synonym_to_prefix": _dictattr(conv, "synonym_to_prefix"),
        "pattern_map": _dictattr(conv, "pattern_map"),
        "trie": _dictattr(conv, "trie"),
    }
    recs = [record_dump(r) for r in conv.records]
    if not ordered:
        recs = sorted(recs, key=record_key)
    return {"records": recs, "delimiter": conv.delimiter, **views}


def answers(conv, strings, pairs, full=True):
    """Answers of every public query method on the probe set.

    ``strings`` are asked of the one-string methods, ``pairs`` of the
    (prefix, identifier) methods.  ``full=False`` asks the default mode and the
    strict mode only (used where a converter is re-observed after every step).
    """
    from curies.api import ReferenceTuple

    out = {}
    for n, s in enumerate(strings):
        # all four strict x passthrough modes on every third probe, default and
        # strict on the others (the probe list interleaves kinds of strings)
        modes = MODES if (full and n % 3 == 0) else MODES[:2]
        d = {}
        if not full:
            # lite: every primitive in default mode, strict mode for the two conversions
            d["compress"] = [callm(conv, "compress", s), callm(conv, "compress", s, strict=True)]
            d["expand"] = [callm(conv, "expand", s), callm(conv, "expand", s, strict=True)]
            for name in ("compress_or_standardize", "expand_or_standardize", "standardize_prefix",
                         "standardize_curie", "standardize_uri", "parse_curie", "expand_all",
                         "get_record", "is_uri", "is_curie"):
                d[name] = callm(conv, name, s)
            d["parse_uri"] = callm(conv, "parse_uri", s, return_none=True)
            d["parse"] = callm(conv, "parse", s, strict=False)
            out[s] = d
            continue
        for name in (
            "compress", "expand", "compress_or_standardize", "expand_or_standardize",
            "standardize_prefix", "standardize_curie", "standardize_uri",
        ):
            d[name] = [callm(conv, name, s, strict=st, passthrough=pt) for st, pt in modes]
        d["parse_uri"] = [callm(conv, "parse_uri", s, strict=st, return_none=True) for st in (False, True)]
        d["parse_curie"] = [callm(conv, "parse_curie", s, strict=st) for st in (False, True)]
        d["parse"] = [callm(conv, "parse", s, strict=st) for st in (False, True)]
        d["expand_all"] = [callm(conv, "expand_all", s, strict=st) for st in (False, True)]
        d["is_uri"] = callm(conv, "is_uri", s)
        d["is_curie"] = callm(conv, "is_curie", s)
        d["get_record"] = [callm(conv, "get_record", s, strict=st) for st in (False, True)]
        if full and n % 3 == 0:
            d["compress_strict"] = callm(conv, "compress_strict", s)
            d["expand_strict"] = callm(conv, "expand_strict", s)
        out[s] = d
    pout = {}
    modes = MODES if full else MODES[:2]
    for p, i in pairs:
        d = {
            "expand_pair": [callm(conv, "expand_pair", p, i, strict=st, passthrough=pt) for st, pt in modes],
            "expand_pair_all": [callm(conv, "expand_pair_all", p, i, strict=st) for st in (False, True)],
            "expand_reference": [
                call(lambda: conv.expand_reference(ReferenceTuple(p, i), strict=st, passthrough=pt))     # noqa: B023
                for st, pt in modes
            ],
            "format_curie": callm(conv, "format_curie", p, i),
        }
        pout[json.dumps([p, i], ensure_ascii=True)] = d
    return {"strings": out, "pairs": pout}


def snapshot(conv, strings, pairs, full=True, ordered=True):
    """Answers first, structure afterwards: whatever a converter builds or tidies up lazily on lookup has
    then happened, and the structure is not made stale by the snapshot's own queries."""
    ans = answers(conv, strings, pairs, full=full)
    return {"structure": structure(conv, ordered=ordered), "answers": ans}


def digest(value) -> str:
    return hashlib.sha256(
        json.dumps(value, sort_keys=True, ensure_ascii=True, separators=(",", ":")).encode()
    ).hexdigest()


def stable_digest(value) -> str:
    """A digest for the determinism log that does not depend on the ORDER of synonyms (nor on the order
    of the non-canonical expansions): a library may keep the caller's order, and when the caller passed a
    set that order follows the interpreter's hash seed - which must not look like a harness that is not
    deterministic."""

    def norm(v, key=None):
        if isinstance(v, dict):
            return {k: norm(x, k) for k, x in v.items()}
        if isinstance(v, list):
            out = [norm(x) for x in v]
            if key in ("prefix_synonyms", "uri_prefix_synonyms"):
                return sorted(out, key=lambda x: json.dumps(x, sort_keys=True))
            if key in ("expand_all", "expand_pair_all") or (len(out) == 2 and out[0] == "ok" and isinstance(out[1], list)
                                                             and all(isinstance(x, str) for x in out[1])):
                if len(out) == 2 and out[0] == "ok" and isinstance(out[1], list):
                    return ["ok", out[1][:1] + sorted(out[1][1:])]
            return out
        return v

    return digest(norm(value))


def diff(a, b, path="", limit=6):
    """First few paths at which two canonical values differ."""
    out = []

    def walk(x, y, p):
        if len(out) >= limit:
            return
        if isinstance(x, dict) and isinstance(y, dict):
            for k in sorted(set(x) | set(y)):
                if k not in x:
                    out.append({"path": f"{p}/{k}", "before": ABSENT, "after": y[k]})
                elif k not in y:
                    out.append({"path": f"{p}/{k}", "before": x[k], "after": ABSENT})
                else:
                    walk(x[k], y[k], f"{p}/{k}")
                if len(out) >= limit:
                    return
        elif isinstance(x, list) and isinstance(y, list) and len(x) == len(y):
            for i, (u, v) in enumerate(zip(x, y)):
                walk(u, v, f"{p}[{i}]")
                if len(out) >= limit:
                    return
        elif x != y:
            out.append({"path": p, "before": x, "after": y})

    walk(a, b, path)
    return out


def probe_sets(curie_pool, uri_pool, id_pool, delimiters, max_ids=3, compact=False):
    """Probe strings and pairs from the *world's* pools (not from one converter)."""
    from .tokens import uri_probes

    if compact:
        # one CURIE per pool prefix, the bare prefix, and p / p+tail / p-minus-one per URI prefix
        out = [""]
        d = delimiters[0]
        for n, p in enumerate(curie_pool):
            out.append(p + d + id_pool[n % len(id_pool)])
            out.append(p)
        for n, u in enumerate(uri_pool):
            out.append(u)
            out.append(u + id_pool[n % len(id_pool)])
            if u:
                out.append(u[:-1])
        for d2 in delimiters[1:]:
            out.append(curie_pool[0] + d2 + "1")
        # tokens the C10 generators invent on the fly (fresh names for mutations and remappings)
        for n in (1, 2, 3, 4):
            out.append(f"mx{n}" + d + "1")
            out.append(f"m:{n}/1")
        for n in (1, 2, 3):
            out.append(f"new{n}" + d + "1")
            out.append(f"n:{n}/1")
        out.append("no delimiter here")
        strings = list(dict.fromkeys(out))
        pairs = [(p, id_pool[n % len(id_pool)]) for n, p in enumerate(curie_pool)] + [("zz", "1")]
        return strings, pairs

    strings = []
    seen = set()

    def add(s):
        if s not in seen:
            seen.add(s)
            strings.append(s)

    ids = list(id_pool[:max_ids])
    for d in delimiters:
        add(d)
        for p in curie_pool:
            for i in ids:
                add(p + d + i)
    for p in curie_pool:
        add(p)
    for s in uri_probes(uri_pool, extra_tails=("1",), alphabet=("/", "a"), replaced=False):
        add(s)
    add("no delimiter here")
    pairs = [(p, i) for p in curie_pool for i in ids[:2]] + [("zz", "1")]
    return strings, pairs


def scratch_dir(prefix):
    """A private scratch directory for the file-based observations (memory-backed where there is one)."""
    import os
    import tempfile

    shm = "/dev/shm"
    return tempfile.mkdtemp(prefix=prefix, dir=shm if os.path.isdir(shm) and os.access(shm, os.W_OK) else None)


def bulk_answers(conv, cells, dirpath):
    """The bulk functions as queries: two data-frame calls (pd_expand over the cells that have the converter's
    delimiter - the others make it raise - and pd_compress over all cells) and one file call (file_compress
    over all cells)."""
    import csv
    import os

    import pandas as pd

    def frame():
        d = conv.delimiter
        sub = [x for x in cells if d in x]
        if not sub:
            return ["no cell with the delimiter"]
        df = pd.DataFrame({"c": sub})
        try:
            conv.pd_expand(df, "c", target_column="t")
            return ["ok", [None if pd.isna(x) else x for x in df["t"]]]
        except Exception as e:  # noqa: BLE001 - whatever the bulk function does is an observation
            return ["exc", type(e).__name__]

    def file():
        path = os.path.join(dirpath, "cells.tsv")
        with open(path, "w", newline="", encoding="utf-8") as f:
            csv.writer(f, delimiter="\t").writerows([[x] for x in cells])
        try:
            conv.file_compress(path, 0, header=False)
            with open(path, newline="", encoding="utf-8") as f:
                return ["ok", [row[0] if row else "" for row in csv.reader(f, delimiter="\t")]]
        except Exception as e:  # noqa: BLE001
            return ["exc", type(e).__name__]

    def frame_compress():
        df = pd.DataFrame({"c": list(cells)})
        try:
            conv.pd_compress(df, "c", target_column="t")
            return ["ok", [None if pd.isna(x) else x for x in df["t"]]]
        except Exception as e:  # noqa: BLE001
            return ["exc", type(e).__name__]

    return {"pd_expand": frame(), "pd_compress": frame_compress(), "file_compress": file()}


def written_extended_prefix_map(curies_module, conv, dirpath):
    """What write_extended_prefix_map puts on disk for this converter, as a canonical value (records sorted,
    synonym lists sorted): the serialised form is an answer of the converter too."""
    import os

    fn = getattr(curies_module, "write_extended_prefix_map", None)
    if fn is None:
        return ABSENT
    path = os.path.join(dirpath, f"epm{next(_COUNTER)}.json")      # a path that does not exist yet
    try:
        fn(conv, path)
        with open(path, encoding="utf-8") as f:
            data = json.load(f)
    except Exception as e:  # noqa: BLE001
        return ["exc", type(e).__name__]
    finally:
        try:
            os.unlink(path)
        except OSError:
            pass

    def norm(v):
        # the ORDER of records in the file and of names in a synonym list is not regulated (the live converter
        # appends, the constructor sorts): every list is compared as a multiset, wherever it sits; empty
        # values say the same as leaving the key out
        if isinstance(v, dict):
            return {str(k): norm(x) for k, x in v.items() if x not in ([], None, "")}
        if isinstance(v, list):
            return sorted((norm(x) for x in v), key=lambda x: json.dumps(x, sort_keys=True))
        return canon(v)

    return ["ok", norm(data)]
