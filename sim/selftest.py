"""Determinism self-test and setup command.

selftest: for every claimed property, N run-seeds are executed (a) twice in one
process, (b) in fresh interpreters under two other PYTHONHASHSEED values,
(c) through the batch runner at worker counts 1, 4 and 16; all event-log digests
and the aggregate counters must agree.  A mismatch is a HARNESS-ERROR.
"""
from __future__ import annotations

import json
import os
import time

from . import core
from .env import HarnessError, load_curies


def cmd_setup(args):
    import sys

    c = load_curies()
    import pandas  # noqa: F401
    import pydantic  # noqa: F401
    import pytrie  # noqa: F401

    print(f"python {sys.version.split()[0]} curies from {os.path.dirname(c.__file__)}")
    args.runs = 12
    args.props = None
    return cmd_selftest(args, light=True)


def cmd_selftest(args, light=False):
    load_curies()
    from . import runner
    from .cli import PROPS

    n = args.runs or 200
    props = [p for p in (args.rest or PROPS) if p in PROPS] or PROPS
    base = args.seed if args.seed is not None else int(os.environ.get("VERIF_SEED", "0"))
    t0 = time.time()
    total_pairs = 0
    for prop in props:
        known, _ = runner.load_known(prop)
        tier = "quick"
        idx = list(range(n))
        a = {}
        for i in idx:
            seed = core.run_seed_for(base, prop, tier, i)
            a[i] = core.run_one(prop, seed, tier, known=frozenset(known), keep_trace=False)["digest"]
        # (a) again in the same process
        step = 1 if light else max(1, n // 50)
        for i in idx[::step]:
            seed = core.run_seed_for(base, prop, tier, i)
            d = core.run_one(prop, seed, tier, known=frozenset(known), keep_trace=False)["digest"]
            total_pairs += 1
            if d != a[i]:
                raise HarnessError(f"{prop}: seed index {i} differs between two runs in one process")
        # (b) fresh interpreters, other hash seeds
        for hs in ([7] if light else [1, 987654321]):
            sub = idx if light else idx[:: max(1, n // 100)]
            b = runner.digests_in_fresh_interpreter(prop, tier, base, sub, hashseed=hs)
            for i in sub:
                total_pairs += 1
                if b.get(i) != a[i]:
                    raise HarnessError(f"{prop}: seed index {i} differs under PYTHONHASHSEED={hs}")
        # (c) batch runner at several worker counts
        aggs = []
        for w in ([2] if light else [1, 4, 16]):
            agg = runner.Batch(prop, tier, base, workers=w, runs=n).run()
            if agg["violation"] is not None:
                print(f"NOTE {prop}: a run violates the property; determinism is still compared")
            for i in idx:
                total_pairs += 1
                if agg["digests"].get(i) != a[i] and agg["violation"] is None:
                    raise HarnessError(f"{prop}: seed index {i} differs at workers={w}")
            aggs.append((w, agg))
        ref = aggs[0][1]
        for w, agg in aggs[1:]:
            for key in ("evaluated", "steps", "states", "transitions", "distinct_nontrivial"):
                if agg[key] != ref[key]:
                    raise HarnessError(f"{prop}: aggregate {key} differs at workers={w}: {agg[key]} != {ref[key]}")
            if dict(agg["stats"]) != dict(ref["stats"]):
                raise HarnessError(f"{prop}: aggregate counters differ at workers={w}")
        print(f"SELFTEST {prop}: {n} seeds deterministic (in-process, fresh interpreters, worker counts)")
    print(f"SELFTEST OK pairs_compared={total_pairs} wall_s={time.time() - t0:.1f}")
    return 0
