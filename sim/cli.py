"""Command line of the checks (see ./check)."""
from __future__ import annotations

import argparse
import glob
import hashlib
import json
import os
import subprocess
import sys
import time
import traceback

from . import core
from .env import HarnessError, VERIF_DIR, REPO_SRC, load_curies, repo_head

PROPS = ["C01", "C05", "C10", "C16"]
LEVEL = {"C01": "exploration", "C05": "exploration", "C10": "exploration", "C16": "fault_enumeration"}

RULES = {
    "C01": "one evaluation = one seeded delivery schedule (ctor batch / add_record / add_prefix / split "
           "synonym delivery / rejected duplicate / chain of parts) of one owner map, with the longest-prefix "
           "oracle evaluated on the probe set after every step; non-trivial = the owner map contains a URI "
           "prefix that is a proper prefix of another AND some probe matched >= 2 registered prefixes AND at "
           "least one incremental delivery step happened; distinct = distinct sha256 of (config, op list)",
    "C05": "one evaluation = one seeded history of add_record / add_prefix calls from a seeded start "
           "converter, five oracles after every call; non-trivial = the history contains at least one "
           "accepted merge that brought new prefixes into an existing record AND at least one rejected call "
           "(all acquired tokens are in the probe set of every later snapshot); distinct = distinct sha256 "
           "of (config, op list)",
    "C10": "one evaluation = one seeded multi-converter history (derivations interleaved with mutations), "
           "all inputs and ancestors re-observed after every step; non-trivial = at least one derivation "
           "whose result later received an accepted merge=True mutation hitting a record inherited from an "
           "input, with the inputs re-observed afterwards; distinct = distinct sha256 of (config, op list)",
    "C16": "one evaluation = one seeded table + converter + flag set, run fault-free and then with a "
           "failing cell injected at EVERY row position in turn (exhaustive over positions of the first "
           "failing row); non-trivial = fault-free part had a changed target cell and a quoting-sensitive "
           "other cell, and the fault part had a position k>0; distinct = distinct sha256 of (config, op list)",
}

REAL_COMPONENTS = [
    "curies (all of /repo/src/curies, imported from the working tree)", "pydantic", "pytrie",
    "csv (stdlib)", "pandas", "the kernel file system in a private per-run directory (C16)",
]
STUB_COMPONENTS = []
MODEL_COMPONENTS = ["sim/models.py: OwnerMap (C01), RecordSetModel (C05) - oracles, not replacements"]


OUT_DIR = os.environ.get("VERIF_OUT_DIR") or VERIF_DIR  # sensitivity runs redirect replays/evidence to a scratch dir


def _write_json(path, value):
    os.makedirs(os.path.dirname(path), exist_ok=True)
    tmp = path + ".tmp"
    with open(tmp, "w") as f:
        json.dump(value, f, indent=1, ensure_ascii=True, sort_keys=False)
        f.write("\n")
    os.replace(tmp, path)


def source_fingerprint():
    """sha256 over the simulator's and the library's source files: a run during which either changed
    (an edit while it was going) is a harness error, not evidence and not a violation."""
    h = hashlib.sha256()
    roots = [os.path.join(VERIF_DIR, "sim"), os.path.join(REPO_SRC, "curies")]
    for root in roots:
        for d, dirs, files in sorted(os.walk(root)):
            dirs.sort()
            if "__pycache__" in d:
                continue
            for f in sorted(files):
                if f.endswith(".py"):
                    path = os.path.join(d, f)
                    h.update(path.encode())
                    with open(path, "rb") as fh:
                        h.update(fh.read())
    kf = os.path.join(VERIF_DIR, "known_findings.json")
    if os.path.exists(kf):
        h.update(open(kf, "rb").read())
    return h.hexdigest()


def cmd_digest(args):
    load_curies()
    from .runner import load_known

    known, _ = load_known(args.prop)
    out = {}
    for i in [int(x) for x in args.indices.split(",") if x]:
        seed = core.run_seed_for(args.seed, args.prop, args.tier, i)
        r = core.run_one(args.prop, seed, args.tier, known=frozenset(known), keep_trace=False)
        out[i] = r["digest"]
    print("DIGESTS " + json.dumps(out))
    return 0


def cmd_replay(args):
    load_curies()
    from .runner import load_known

    known, _ = load_known(args.prop)
    trace = json.load(open(args.replay))
    if trace.get("property") != args.prop:
        raise HarnessError(f"replay file is for {trace.get('property')}, not {args.prop}")
    r = core.replay_trace(trace, known=frozenset(known))
    for sig in sorted(set(r["known_hits"])):
        print(f"KNOWN-FINDING: property={args.prop} {known[sig]['what']}")
    v = r["violation"]
    print(f"REPLAY property={args.prop} file={args.replay} ops={len(trace['ops'])} digest={r['digest'][:16]}")
    if v is None:
        print("REPLAY-RESULT held")
        return 0
    print("REPLAY-RESULT violated signature=" + v["signature"])
    print("DETAIL " + json.dumps(v["detail"], ensure_ascii=True)[:3000])
    if args.expect and v["signature"] != args.expect:
        print(f"REPLAY-MISMATCH expected={args.expect}")
        return 4
    print(f"VIOLATION property={args.prop} replay={args.replay}")
    return 1


def _verify_in_fresh_interpreter(prop, path, signature):
    env = dict(os.environ)
    env["VERIF_REPO_SRC"] = REPO_SRC
    env["PYTHONHASHSEED"] = "4242"
    p = subprocess.run(
        [sys.executable, os.path.join(VERIF_DIR, "run.py"), prop, "--replay", path, "--expect", signature],
        capture_output=True, text=True, env=env, timeout=600, cwd=VERIF_DIR,
    )
    return p.returncode == 10 and ("signature=" + signature) in p.stdout, p


def _regressions(prop, known):
    """Committed replay files of repaired defects: they must hold on the current tree."""
    out = []
    for path in sorted(glob.glob(os.path.join(VERIF_DIR, "regressions", prop, "*.json"))):
        trace = json.load(open(path))
        r = core.replay_trace(trace, known=frozenset(known))
        out.append((path, r))
    return out


def cmd_check(args):
    prop = args.prop
    tier = os.environ.get("VERIF_TIER") or args.tier
    if tier not in ("quick", "thorough"):
        raise HarnessError(f"unknown tier {tier}")
    base_seed = args.seed if args.seed is not None else int(os.environ.get("VERIF_SEED", "0"))
    load_curies()
    from . import runner
    from .minimise import minimise

    t0 = time.time()
    fp0 = source_fingerprint()
    known, fixed = runner.load_known(prop)
    print(f"SEED {base_seed} property={prop} tier={tier} repo_src={REPO_SRC} head={repo_head()}")

    # 1. regression replays (repaired defects must stay repaired)
    reg = _regressions(prop, known)
    reg_bad = [(p, r) for p, r in reg if r["violation"] is not None]

    # 2. seeded search
    runs = args.runs
    budget = args.budget
    if tier == "quick" and runs is None and budget is None:
        runs = runner.TIERS[prop]["quick_runs"]
    if tier == "thorough" and runs is None and budget is None:
        budget = float(os.environ.get("VERIF_BUDGET_S", "600"))
    batch = runner.Batch(prop, tier, base_seed, workers=args.workers, budget_s=budget, runs=runs)
    agg = batch.run()

    # 3. determinism sample (harness self-check; a mismatch is never a VIOLATION)
    det = runner.determinism_check(prop, tier, base_seed, agg, known,
                                   n_inproc=8 if tier == "quick" else 24,
                                   n_fresh=6 if tier == "quick" else 16)

    if source_fingerprint() != fp0:
        raise HarnessError("source files of the simulator or of curies changed while the batch was running; "
                           "nothing from this run is believed - run it again")

    violation_path = None
    vio = None
    min_info = None
    if reg_bad:
        violation_path, r = reg_bad[0]
        vio = r["violation"]
    elif agg["violation"] is not None:
        res = agg["violation"]
        vio = res["violation"]
        trace = res["trace"]
        mt, min_info = minimise(trace, vio["signature"], known=frozenset(known))
        rr = core.replay_trace(mt, known=frozenset(known))
        mt = dict(mt)
        mt["violation"] = rr["violation"] or vio
        vio = mt["violation"]
        mt["minimisation"] = min_info
        mt["original_ops"] = len(trace["ops"])
        mt["found_at"] = {"base_seed": base_seed, "index": res["index"], "tier": tier, "repo_head": repo_head()}
        d8 = hashlib.sha256(json.dumps(mt["ops"], sort_keys=True).encode()).hexdigest()[:8]
        violation_path = os.path.join(OUT_DIR, "replays", f"{prop}-{res['seed']}-{d8}.json")
        _write_json(violation_path, mt)
        ok, p = _verify_in_fresh_interpreter(prop, violation_path, vio["signature"])
        if not ok:
            # fall back to the unminimised trace before giving up
            full = dict(trace, violation=vio, found_at=mt["found_at"], minimisation={"minimised": False})
            violation_path = os.path.join(OUT_DIR, "replays", f"{prop}-{res['seed']}-full.json")
            _write_json(violation_path, full)
            ok, p = _verify_in_fresh_interpreter(prop, violation_path, vio["signature"])
            if not ok:
                _write_evidence(prop, tier, base_seed, agg, det, reg, 0, time.time() - t0, budget, runs,
                                note="a violating run did not reproduce on replay (harness error)")
                raise HarnessError(
                    f"violation {vio['signature']} did not reproduce in a fresh interpreter: "
                    f"rc={p.returncode} out={p.stdout[-800:]} err={p.stderr[-800:]}")

    wall = time.time() - t0
    _write_evidence(prop, tier, base_seed, agg, det, reg, 1 if vio else 0, wall, budget, runs)

    for sig in sorted(known):
        if agg["known_hits"].get(sig) or any(sig in r["known_hits"] for _, r in reg):
            print(f"KNOWN-FINDING: property={prop} {known[sig]['what']}")
    rate = agg["evaluated"] / max(agg["wall_s"], 1e-9) * 3600
    print(f"RUNS {agg['evaluated']} steps={agg['steps']} nontrivial_distinct={agg['distinct_nontrivial']} "
          f"states={agg['states']} transitions={agg['transitions']} runs_per_hour={rate:.0f} "
          f"workers={agg['workers']} wall_s={wall:.1f}")
    zero = [k for k in _expected_probes(prop) if not agg["stats"].get("probe:" + k)]
    if zero:
        print("WARNING reach probes at zero: " + ", ".join(zero))
    if det["mismatches"]:
        raise HarnessError(f"non-determinism detected: {det['mismatch_list']}")
    if vio is not None:
        print("VIOLATION-DETAIL " + json.dumps({"signature": vio["signature"], "detail": vio["detail"]},
                                               ensure_ascii=True)[:2500])
        if min_info:
            print("MINIMISED " + json.dumps(min_info))
        print(f"VIOLATION property={prop} replay={violation_path}")
        return 1
    print(f"OK property={prop} held on everything explored")
    return 0


def _expected_probes(prop):
    M = core.get_machine(prop)
    return list(getattr(M, "EXPECTED_PROBES", []))


def _write_evidence(prop, tier, base_seed, agg, det, reg, violations, wall, budget, runs, note=None):
    stats = agg["stats"]
    group = lambda pre: {k[len(pre):]: v for k, v in sorted(stats.items()) if k.startswith(pre)}  # noqa: E731
    rate = agg["evaluated"] / max(agg["wall_s"], 1e-9) * 3600
    cov = {
        "evaluations": agg["evaluated"],
        "distinct_nontrivial": agg["distinct_nontrivial"],
        "rule": RULES[prop],
        "samples": [s["trace"] for s in agg["samples"]],
        "exhaustive": False,
        "steps_logical_time": agg["steps"],
        "simulated_time_note": "no clock in any claimed surface: simulated time is counted in operations executed",
        "runs_per_hour": int(rate),
        "seeds": {"base_seed": base_seed, "first_index": 0, "last_index": max(agg["digests"]) if agg["digests"] else -1,
                  "derivation": "run_seed = int(sha256(f'{base}:{property}:{tier}:{index}')[:16], 16)"},
        "fault_kinds_fired": group("fault:"),
        "event_kinds_fired": group("event:"),
        "reach_probes": group("probe:"),
        "reach_probes_at_zero": [k for k in _expected_probes(prop) if not stats.get("probe:" + k)],
        "distinct_states": agg["states"],
        "distinct_transitions": agg["transitions"],
        "distinctness_measure": "states = distinct hashes of the canonical model/observed state after each step; "
                                "transitions = distinct (state, op kind, outcome, next state)",
        "hash_cap_reached": agg["hash_cap_reached"],
        "real_components": REAL_COMPONENTS,
        "stub_components": STUB_COMPONENTS,
        "model_components": MODEL_COMPONENTS,
        "determinism": {k: v for k, v in det.items()},
        "regression_replays": [{"file": os.path.relpath(p, VERIF_DIR), "held": r["violation"] is None} for p, r in reg],
        "known_finding_hits": dict(agg["known_hits"]),
        "workers": agg["workers"],
        "budget_s": budget,
        "runs_requested": runs,
        "repo_head": repo_head(),
        "repo_src": REPO_SRC,
        "source_fingerprint": source_fingerprint()[:16],
    }
    if note:
        cov["note"] = note
    ev = {
        "property_id": prop,
        "tier": tier,
        "seed": base_seed,
        "level": LEVEL[prop],
        "coverage": cov,
        "assumptions": [
            "a clean batch is evidence, not proof: histories / schedules / fault positions are sampled by a seeded PRNG",
            "token pools are small on purpose (collisions); very long strings and very large maps are not exercised",
            "case-insensitive matching is exercised on ASCII letters and on letters whose lower() equals casefold()",
            "the reference models in sim/models.py are trusted as transcriptions of the property statements",
        ],
        "wall_s": round(wall, 2),
        "violations": violations,
    }
    _write_json(os.path.join(OUT_DIR, "evidence", f"{prop}.json"), ev)


def main(argv):
    ap = argparse.ArgumentParser(prog="check")
    ap.add_argument("prop")
    ap.add_argument("rest", nargs="*")
    ap.add_argument("--tier", default="quick")
    ap.add_argument("--seed", type=int, default=None)
    ap.add_argument("--runs", type=int, default=None)
    ap.add_argument("--budget", type=float, default=None)
    ap.add_argument("--workers", type=int, default=None)
    ap.add_argument("--replay", default=None)
    ap.add_argument("--expect", default=None)
    ap.add_argument("--indices", default="")
    args = ap.parse_args(argv)
    try:
        if args.prop == "digest":
            args.prop = args.rest[0]
            if args.seed is None:
                args.seed = 0
            return cmd_digest(args)
        if args.prop == "selftest":
            from .selftest import cmd_selftest
            return cmd_selftest(args)
        if args.prop == "setup":
            from .selftest import cmd_setup
            return cmd_setup(args)
        if args.prop not in PROPS:
            raise HarnessError(f"unknown property {args.prop}; claimed: {PROPS}")
        if args.replay:
            return cmd_replay(args)
        return cmd_check(args)
    except HarnessError as e:
        print(f"HARNESS-ERROR: {e}")
        return 3
    except Exception:  # noqa: BLE001
        print("HARNESS-ERROR: unexpected exception in the machinery")
        traceback.print_exc()
        return 3
