"""Delta-debugging of an operation list; candidates are accepted only if the
replay produces a violation with the same signature."""
from __future__ import annotations

import copy

from . import core


def _fails(trace, signature, known):
    try:
        r = core.replay_trace(trace, known)
    except Exception:  # noqa: BLE001 - a candidate that breaks the harness is simply not accepted
        return False
    return r["violation"] is not None and r["violation"]["signature"] == signature


def ddmin_ops(trace, signature, known, budget):
    ops = list(trace["ops"])
    n = 2
    while len(ops) >= 2 and budget[0] > 0:
        size = max(1, len(ops) // n)
        removed = False
        for start in range(0, len(ops), size):
            cand = ops[:start] + ops[start + size:]
            if not cand:
                continue
            budget[0] -= 1
            if _fails(dict(trace, ops=cand), signature, known):
                ops = cand
                n = max(n - 1, 2)
                removed = True
                break
            if budget[0] <= 0:
                break
        if not removed:
            if size == 1:
                break
            n = min(len(ops), n * 2)
    # single removal sweep, last to first
    i = len(ops) - 1
    while i >= 0 and len(ops) > 1 and budget[0] > 0:
        cand = ops[:i] + ops[i + 1:]
        budget[0] -= 1
        if _fails(dict(trace, ops=cand), signature, known):
            ops = cand
        i -= 1
    return dict(trace, ops=ops)


def simplify_ops(trace, signature, known, budget):
    M = core.get_machine(trace["property"])
    simp = getattr(M, "simplify_op", None)
    if simp is None:
        return trace
    changed = True
    rounds = 0
    while changed and budget[0] > 0 and rounds < 6:
        changed = False
        rounds += 1
        for i in range(len(trace["ops"])):
            progress = True
            while progress and budget[0] > 0:
                progress = False
                for cand_op in simp(copy.deepcopy(trace["ops"][i])):
                    if cand_op == trace["ops"][i]:
                        continue
                    ops = list(trace["ops"])
                    ops[i] = cand_op
                    budget[0] -= 1
                    if _fails(dict(trace, ops=ops), signature, known):
                        trace = dict(trace, ops=ops)
                        changed = True
                        progress = True
                        break
                    if budget[0] <= 0:
                        break
    return trace


def minimise(trace, signature, known=frozenset(), max_replays=1500, max_seconds=90.0):
    import time

    original_len = len(trace["ops"])
    t0 = time.time()
    if not _fails(trace, signature, known):
        return trace, {"minimised": False, "reason": "original trace does not replay", "replays": 1}
    # bound the wall time of minimisation: the budget is a number of replays derived from the cost of
    # one replay of the unminimised trace (candidates only get cheaper)
    one = max(time.time() - t0, 1e-4)
    max_replays = int(max(40, min(max_replays, max_seconds / one)))
    budget = [max_replays]
    t = ddmin_ops(trace, signature, known, budget)
    t = simplify_ops(t, signature, known, budget)
    t = ddmin_ops(t, signature, known, budget)
    return t, {"minimised": True, "ops_before": original_len, "ops_after": len(t["ops"]),
               "replays": max_replays - budget[0]}
