"""Deterministic simulation with fault injection for biopragmatics/curies."""
