"""Token pools: small, deliberately colliding, always handled as sorted lists.

Nothing here is random by itself: every choice is made with the run's PRNG that
the caller passes in.
"""
from __future__ import annotations

DELIMITERS = [":", "/", "::", "_", "|"]

# CURIE prefixes: case variants only between strings on which lower(), casefold() and upper() all
# agree, so a case-insensitive model cannot disagree with any legitimate implementation choice.
CURIE_PREFIXES = [
    "a", "A", "b", "B", "ab", "Ab", "aB", "go", "GO", "Go", "x1", "X1",
    "é", "É", "p.q", "n-1", "x_1", "c", "d", "e",
    # letters whose lower() differs from their casefold() - only in relations on which every legitimate
    # folding agrees: the identical string, and the pair that differs in an ordinary letter ("Maß" / "maß":
    # equal under lower(), casefold() and upper() alike; no "mass", no "σ")
    "maß", "Maß", "ς",
]
RARE_CURIE_PREFIXES = ["", "a:b", "u", "h", "a+b", "c(1)", "x?", "p[0]", "m%s", "q{0}"]

# URI prefixes: a prefix-closed lattice over a tiny alphabet, so nesting,
# one-character differences and synonyms nested in other records' prefixes are
# the norm.
URI_PREFIXES = [
    "u:", "u:a", "u:a/", "u:A", "u:A/", "u:a/b", "u:a/b#", "u:ab", "u:b",
    "v/", "v/x", "v/x_", "v/x_y", "V/", "V/x_",
    "h://e/", "h://e/a", "h://E/", "h://e/a_",
    "é", "é/", "\U0001d11e", "\U0001d11e/", "e\u0301",
    "a:", "go:", "GO:", "w|", "w|q::", "u:maß/", "u:Maß/",
    # realistically long ones (longer than any plausible fixed-width head / bucket)
    "http:", "http://x.org/", "http://x.org/a", "http://x.org/a/b_", "http://y.org/", "https://x.org/",
    # names that are hostile to anything that treats a registered name as a pattern or a template
    "http://x.org/q?id=", "http://x.org/a+b/", "u:(x)/", "u:[a]", "u:$", "u:^a", "u:\\", "u:%20", "u:{0}",
    "u:a*", "u:.",
    # a registered name that itself starts with a decoration
    "<u:",
]
RARE_URI_PREFIXES = ["", "u"]

IDENTIFIERS = ["", "1", "x", "a/", ":", "::1", "é", " ", "1:2", "b#1", "_y", "|z", "/", "A", "a"]

ALPHABET = ["a", "A", "/", ":", "_", "#", "b", "x", "|", "é", "\u0301", "\U0001d11e", "y", "1"]


def pick_pool(rng, master, rare, lo, hi, rare_p=0.15):
    """Seeded sub-pool of a master pool (order of the master pool is kept)."""
    k = rng.randint(lo, min(hi, len(master)))
    chosen = set(rng.sample(range(len(master)), k))
    pool = [master[i] for i in range(len(master)) if i in chosen]
    for r in rare:
        if rng.random() < rare_p:
            pool.append(r)
    return pool


def uri_probes(uri_pool, extra_tails=("1", "x/y", ""), alphabet=None, replaced=True, shapes_for=0):
    """Probe strings around every URI prefix of a pool (deterministic, sorted, unique)."""
    out = []
    seen = set()

    def add(s):
        if s not in seen:
            seen.add(s)
            out.append(s)

    add("")
    for p in uri_pool:
        add(p)
        if p:
            add(p[:-1])
            if replaced:
                add(p[:-1] + ("Z" if p[-1] != "Z" else "Y"))
        for c in (ALPHABET if alphabet is None else alphabet):
            add(p + c)
        for t in extra_tails:
            add(p + t)
        if (alphabet is None or uri_pool.index(p) % max(1, len(uri_pool) // max(1, shapes_for)) == 0 and shapes_for) and p:
            add(p + p)             # the prefix occurs again inside the identifier
            add(p + "1" + p)
            add(p + " ")           # white space is part of the identifier / breaks the match in front
            add(" " + p + "1")
            add(p.swapcase() + "1")
            # the URI in the decorations it travels in (N-Triples / Turtle brackets, quotes, a BOM or a tab in
            # front, "URL:"): not the registered prefix any more - unless a registered prefix starts that way
            add("<" + p + "1>")
            add("<" + p + ">")
            add('"' + p + '1"')
            add("\ufeff" + p + "1")
            add("\t" + p + "1")
            add("[" + p + "1]")
            add("URL:" + p + "1")
            add(p + "%20?x=1&y=2#frag")
            add(p + "L" * 300)     # a long identifier
            tails = ("1\n2", "1\n", "\n", "\r\n1", "\t1", "\x001", "a\u2028b", "x\x85", "<1>", "1 2")
            i = uri_pool.index(p)
            for t in (tails[i % 10], tails[(i + 3) % 10], tails[(i + 7) % 10]):
                add(p + t)          # line breaks, controls, brackets inside the identifier (three per prefix)
    add("zzz")
    add("\U0001d11e\u0301 ")
    return out


def synthetic_curie_prefixes(n):
    """Extra CURIE prefixes for the rare *large* configurations (sizes are part of the swarm)."""
    out = []
    for i in range(n):
        out.append(f"p{i}" if i % 3 else f"P{i // 3}x")
    return out


def synthetic_uri_prefixes(n):
    """Extra URI prefixes forming long nesting chains: s://h0/, s://h0/a, s://h0/aa, ..."""
    out = []
    for i in range(n):
        host, level = i % 6, i // 6
        tok = f"s://h{host}/" + "a" * level
        if i % 7 == 3:
            tok = f"s://H{host}/" + "aA" * (level // 2) + "a" * (level % 2)     # mixed case: folds onto a sibling
        out.append(tok)
    return out


# Converter.__init__ takes Iterable[Record]: every kind of iterable is in contract, one-shot ones included
CONTAINERS = ["list", "list", "tuple", "generator", "iterator", "dict_values", "map"]


def as_container(kind, items):
    items = list(items)
    if kind == "tuple":
        return tuple(items)
    if kind == "generator":
        return (x for x in items)
    if kind == "iterator":
        return iter(items)
    if kind == "dict_values":
        return {i: x for i, x in enumerate(items)}.values()
    if kind == "map":
        return map(lambda x: x, items)
    return items
