"""Batch runner: seeded search over many simulated runs on all cores.

Aggregation is by seed index, never by completion order.  Wall-clock is read
only here, and only to decide whether to *start* more runs.
"""
from __future__ import annotations

import faulthandler
import json
import multiprocessing
import os
import subprocess
import sys
import time
from collections import Counter
from concurrent.futures import ProcessPoolExecutor, wait, FIRST_COMPLETED

from . import core
from .env import HarnessError, VERIF_DIR, REPO_SRC, repo_head

MAX_HASHES = 3_000_000

TIERS = {
    # property: (quick runs, chunk)
    "C01": {"quick_runs": 6000, "chunk": 100},
    "C05": {"quick_runs": 2400, "chunk": 20},
    "C10": {"quick_runs": 4000, "chunk": 25},
    "C16": {"quick_runs": 4000, "chunk": 50},
}


def load_known(prop):
    path = os.path.join(VERIF_DIR, "known_findings.json")
    if not os.path.exists(path):
        return {}, []
    data = json.load(open(path))
    known = {}
    fixed = []
    for e in data.get("findings", []):
        if e.get("property") != prop:
            continue
        if e.get("status") == "known":
            known[e["signature"]] = e
        else:
            fixed.append(e)
    return known, fixed


def _chunk_worker(args):
    prop, tier, base_seed, indices, known, want_samples = args
    faulthandler.dump_traceback_later(600, exit=True)
    out = []
    samples = []
    try:
        for i in indices:
            seed = core.run_seed_for(base_seed, prop, tier, i)
            res = core.run_one(prop, seed, tier, known=frozenset(known), keep_trace=True)
            res["index"] = i
            if res["violation"] is None:
                if res["nontrivial"] and len(samples) < want_samples:
                    samples.append({"index": i, "trace": res["trace"]})
                del res["trace"]
            out.append(res)
            if res["violation"] is not None:
                break
    finally:
        faulthandler.cancel_dump_traceback_later()
    return out, samples


class Batch:
    def __init__(self, prop, tier, base_seed, workers=None, budget_s=None, runs=None):
        self.prop = prop
        self.tier = tier
        self.base_seed = base_seed
        self.workers = workers or int(os.environ.get("VERIF_WORKERS", "0")) or (os.cpu_count() or 4)
        self.budget_s = budget_s
        self.runs = runs
        self.known, self.fixed = load_known(prop)

    def run(self):
        prop, tier = self.prop, self.tier
        t = TIERS[prop]
        chunk = t["chunk"]
        known_sigs = sorted(self.known)
        t0 = time.time()
        results = {}
        samples = []
        next_index = 0
        total_target = self.runs if self.runs is not None else None
        deadline = (t0 + self.budget_s) if (self.budget_s and total_target is None) else None
        first_violation_index = None
        ctx = multiprocessing.get_context("fork")
        pending = set()
        with ProcessPoolExecutor(max_workers=self.workers, mp_context=ctx) as ex:
            def submit_more():
                nonlocal next_index
                while len(pending) < self.workers + 4:
                    if first_violation_index is not None:
                        return
                    if total_target is not None and next_index >= total_target:
                        return
                    if deadline is not None and time.time() >= deadline:
                        return
                    hi = next_index + chunk
                    if total_target is not None:
                        hi = min(hi, total_target)
                    idx = list(range(next_index, hi))
                    next_index = hi
                    pending.add(ex.submit(_chunk_worker, (prop, tier, self.base_seed, idx, known_sigs, 2)))

            submit_more()
            while pending:
                done, _ = wait(pending, return_when=FIRST_COMPLETED, timeout=900)
                if not done:
                    raise HarnessError("no worker made progress for 900 s")
                for f in done:
                    pending.discard(f)
                    try:
                        out, smp = f.result()
                    except Exception as e:  # worker crash is a harness error
                        raise HarnessError(f"worker failed: {type(e).__name__}: {e}") from e
                    for r in out:
                        results[r["index"]] = r
                        if r["violation"] is not None:
                            if first_violation_index is None or r["index"] < first_violation_index:
                                first_violation_index = r["index"]
                    samples.extend(smp)
                submit_more()
        wall = time.time() - t0
        return self._aggregate(results, samples, first_violation_index, wall)

    def _aggregate(self, results, samples, first_violation_index, wall):
        stats = Counter()
        states = set()
        transitions = set()
        nontrivial = set()
        known_hits = Counter()
        steps = 0
        digests = {}
        evaluated = 0
        for i in sorted(results):
            r = results[i]
            if first_violation_index is not None and i > first_violation_index:
                continue  # keep the aggregate a function of the seed prefix
            evaluated += 1
            steps += r["steps"]
            stats.update(r["stats"])
            if len(states) < MAX_HASHES:
                states.update(r["states"])
            if len(transitions) < MAX_HASHES:
                transitions.update(r["transitions"])
            if r["nontrivial"]:
                nontrivial.add(r["trace_digest"])
            for s in r["known_hits"]:
                known_hits[s] += 1
            digests[i] = r["digest"]
        samples = sorted(samples, key=lambda s: s["index"])[:3]
        violation = results[first_violation_index] if first_violation_index is not None else None
        return {
            "evaluated": evaluated,
            "steps": steps,
            "stats": stats,
            "states": len(states),
            "transitions": len(transitions),
            "hash_cap_reached": len(states) >= MAX_HASHES or len(transitions) >= MAX_HASHES,
            "distinct_nontrivial": len(nontrivial),
            "known_hits": known_hits,
            "digests": digests,
            "samples": samples,
            "violation": violation,
            "wall_s": wall,
            "workers": self.workers,
        }


def digests_in_fresh_interpreter(prop, tier, base_seed, indices, hashseed):
    """Re-run seeds in a fresh interpreter under another PYTHONHASHSEED."""
    env = dict(os.environ)
    env["PYTHONHASHSEED"] = str(hashseed)
    env["VERIF_REPO_SRC"] = REPO_SRC
    cmd = [sys.executable, os.path.join(VERIF_DIR, "run.py"), "digest", prop, "--tier", tier,
           "--seed", str(base_seed), "--indices", ",".join(map(str, indices))]
    p = subprocess.run(cmd, capture_output=True, text=True, env=env, timeout=600, cwd=VERIF_DIR)
    if p.returncode != 0:
        raise HarnessError(f"digest subprocess failed ({p.returncode}): {p.stderr[-2000:]}")
    line = [ln for ln in p.stdout.splitlines() if ln.startswith("DIGESTS ")]
    if not line:
        raise HarnessError("digest subprocess printed nothing")
    return {int(k): v for k, v in json.loads(line[-1][len("DIGESTS "):]).items()}


def determinism_check(prop, tier, base_seed, agg, known, n_inproc=8, n_fresh=6):
    """Same seeds again: in this process, and in a fresh interpreter with another hash seed."""
    idx = sorted(agg["digests"])
    if not idx:
        return {"pairs": 0, "mismatches": 0}
    step = max(1, len(idx) // n_inproc)
    pick = idx[::step][:n_inproc]
    mismatches = []
    pairs = 0
    for i in pick:
        seed = core.run_seed_for(base_seed, prop, tier, i)
        r = core.run_one(prop, seed, tier, known=frozenset(known), keep_trace=False)
        pairs += 1
        if r["digest"] != agg["digests"][i]:
            mismatches.append(["in-process", i])
    pick2 = pick[:n_fresh]
    if pick2:
        fresh = digests_in_fresh_interpreter(prop, tier, base_seed, pick2, hashseed=12345 + base_seed % 1000)
        for i in pick2:
            pairs += 1
            if fresh.get(i) != agg["digests"][i]:
                mismatches.append(["fresh-interpreter", i])
    return {"pairs": pairs, "mismatches": len(mismatches), "mismatch_list": mismatches,
            "modes": ["same seed re-run in the parent process", "same seed in a fresh interpreter under another PYTHONHASHSEED"]}
