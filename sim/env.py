"""Import curies from the working tree under test, and nothing else."""
from __future__ import annotations

import os
import sys

REPO_SRC = os.path.realpath(os.environ.get("VERIF_REPO_SRC", "/repo/src"))
VERIF_DIR = os.path.dirname(os.path.dirname(os.path.abspath(__file__)))


class HarnessError(Exception):
    """Something is wrong with the machinery or the environment (exit status 3)."""


def load_curies():
    """Import curies from REPO_SRC; refuse anything else."""
    if sys.path[0] != REPO_SRC:
        sys.path.insert(0, REPO_SRC)
    import warnings

    warnings.filterwarnings("ignore")
    import curies  # noqa: F401
    import curies.api
    import curies.discovery
    import curies.reconciliation

    got = os.path.realpath(os.path.dirname(curies.__file__))
    want = os.path.join(REPO_SRC, "curies")
    if got != want:
        raise HarnessError(f"curies imported from {got}, expected {want}")
    return curies


def repo_head() -> str:
    import subprocess

    try:
        root = os.path.dirname(REPO_SRC)
        out = subprocess.run(
            ["git", "-C", root, "rev-parse", "--short", "HEAD"],
            capture_output=True, text=True, timeout=20,
        )
        dirty = subprocess.run(
            ["git", "-C", root, "status", "--porcelain", "--untracked-files=no"],
            capture_output=True, text=True, timeout=20,
        )
        head = out.stdout.strip() or "unknown"
        return head + ("+dirty" if dirty.stdout.strip() else "")
    except Exception:
        return "unknown"
