#!/venv/bin/python
"""Systematic (operator-level) mutation of the code behind the four claimed properties.

Complements the hand-written catalogue (tools/mutants.py) and the seeded changes written by
sub-agents (tools/seeded.py): every comparison, boolean operator, constant, `not`, branch
condition and state-changing statement inside the functions that the properties are anchored in
is mutated once.  For each mutant, in a scratch copy outside /repo and /verif:

  1. the package must import;
  2. the repository's own suite is run - a mutant that the suite already kills carries no weight
     and is not examined further;
  3. the quick checks of the properties mapped to the mutated function are run (fewer runs than the
     registered quick tier, see --runs) until one reports a VIOLATION.

Survivors of both are listed for manual triage (equivalent mutant, outside the four properties,
or a gap).  Results: mutants/AUTO_RESULTS.md and mutants/auto_results.json.

usage: tools/automutate.py [--jobs N] [--limit N] [--only-func name,name] [--runs-scale 0.5]
"""
from __future__ import annotations

import argparse
import ast
import json
import os
import re
import shutil
import subprocess
import tempfile
import time
from concurrent.futures import ThreadPoolExecutor

VERIF = os.path.dirname(os.path.dirname(os.path.abspath(__file__)))
REPO = "/repo"

# function -> properties whose checks are tried (in this order)
TARGETS = {
    "src/curies/api.py": {
        "Converter.__init__": ["C01", "C05"],
        "_get_prefix_map": ["C05"],
        "_get_reverse_prefix_map": ["C01", "C05"],
        "_get_prefix_synmap": ["C05"],
        "_get_pattern_map": ["C05"],
        "Converter._match_record": ["C05"],
        "Converter.add_record": ["C05", "C01"],
        "Converter._merge": ["C05", "C01"],
        "Converter._index": ["C05", "C01"],
        "Converter.add_prefix": ["C05"],
        "_eq": ["C05"],
        "_in": ["C05"],
        "Converter.format_curie": ["C01"],
        "Converter.is_uri": ["C01"],
        "Converter.compress": ["C01", "C16"],
        "Converter.parse_uri": ["C01"],
        "Converter.get_subconverter": ["C10", "C01"],
        "chain": ["C10", "C01"],
        "Converter._file_helper": ["C16"],
        "Converter.file_compress": ["C16"],
        "Converter.file_expand": ["C16"],
        "Converter.pd_compress": ["C16"],
        "Converter.pd_expand": ["C16"],
        "Converter.pd_standardize_prefix": ["C16"],
        "Converter.pd_standardize_curie": ["C16"],
        "Converter.pd_standardize_uri": ["C16"],
    },
    # reconciliation: only what C10 is anchored in (the copies); what the functions compute is C11/C12
    "src/curies/reconciliation.py": {
        "_copy": ["C10"],
        "remap_curie_prefixes": ["C10"],
        "remap_uri_prefixes": ["C10"],
        "rewire": ["C10"],
    },
}
COPY_ONLY = {"remap_curie_prefixes", "remap_uri_prefixes", "rewire"}   # only their copy calls are mutated
RUNS = {"C01": 2500, "C05": 1200, "C10": 2000, "C16": 2000}

CMP = {ast.Eq: "!=", ast.NotEq: "==", ast.In: "not in", ast.NotIn: "in", ast.Lt: "<=", ast.LtE: "<",
       ast.Gt: ">=", ast.GtE: ">", ast.Is: "is not", ast.IsNot: "is"}


def offsets(src):
    out = [0]
    for line in src.splitlines(keepends=True):
        out.append(out[-1] + len(line))
    return out


def seg(node, off, src_bytes=None):
    return off[node.lineno - 1] + node.col_offset, off[node.end_lineno - 1] + node.end_col_offset


def mutants_of(path, src, funcs):
    tree = ast.parse(src)
    # ast col offsets are in UTF-8 bytes; the files are ASCII in the targeted functions, but be safe
    b = src.encode("utf-8")
    lines = src.splitlines(keepends=True)
    boff = [0]
    for line in lines:
        boff.append(boff[-1] + len(line.encode("utf-8")))

    def span(node):
        return boff[node.lineno - 1] + node.col_offset, boff[node.end_lineno - 1] + node.end_col_offset

    out = []

    def add(func, node, new, desc, s=None, e=None):
        if s is None:
            s, e = span(node)
        old = b[s:e].decode("utf-8")
        if old == new:
            return
        out.append({"file": path, "func": func, "line": node.lineno, "start": s, "end": e, "old": old,
                    "new": new, "desc": desc})

    def visit_func(qual, fn):
        doc = ast.get_docstring(fn)
        for node in ast.walk(fn):
            # the copies that keep derived converters apart from their inputs
            if isinstance(node, ast.Call) and isinstance(node.func, ast.Attribute) and node.func.attr == "model_copy":
                add(qual, node, b[slice(*span(node.func.value))].decode(), "drop model_copy(...)")
                if node.keywords:
                    add(qual, node, b[slice(*span(node.func.value))].decode() + ".model_copy()", "model_copy(deep=True) -> shallow")
            if isinstance(node, ast.Call) and isinstance(node.func, ast.Name) and node.func.id == "_copy" and node.args:
                add(qual, node, b[slice(*span(node.args[0]))].decode(), "drop _copy(...)")
            if qual in COPY_ONLY:
                continue
            if isinstance(node, ast.Compare) and len(node.ops) == 1 and type(node.ops[0]) in CMP:
                left_end = span(node.left)[1]
                right_start = span(node.comparators[0])[0]
                add(qual, node, " " + CMP[type(node.ops[0])] + " ", f"comparison -> {CMP[type(node.ops[0])]}",
                    left_end, right_start)
            elif isinstance(node, ast.BoolOp):
                for i in range(len(node.values) - 1):
                    s = span(node.values[i])[1]
                    e = span(node.values[i + 1])[0]
                    between = b[s:e].decode()
                    if isinstance(node.op, ast.And) and " and " in between.replace("\n", " "):
                        add(qual, node, re.sub(r"\band\b", "or", between, count=1), "and -> or", s, e)
                    elif isinstance(node.op, ast.Or) and " or " in between.replace("\n", " "):
                        add(qual, node, re.sub(r"\bor\b", "and", between, count=1), "or -> and", s, e)
            elif isinstance(node, ast.UnaryOp) and isinstance(node.op, ast.Not):
                add(qual, node, "(" + b[slice(*span(node.operand))].decode() + ")", "drop `not`")
            elif isinstance(node, ast.Constant) and isinstance(node.value, bool):
                add(qual, node, "False" if node.value else "True", f"{node.value} -> {not node.value}")
            elif isinstance(node, ast.Constant) and isinstance(node.value, int) and not isinstance(node.value, bool):
                add(qual, node, str(node.value + 1), f"{node.value} -> {node.value + 1}")
            elif isinstance(node, ast.Constant) and isinstance(node.value, str) and node.value in ("", "w", "\t", ":"):
                if doc is not None and node.value == doc:
                    continue
                repl = {"": '"x"', "w": '"a"', "\t": '","', ":": '"/"'}[node.value]
                add(qual, node, repl, f"string constant {node.value!r} -> {repl}")
            elif isinstance(node, (ast.If, ast.IfExp)):
                add(qual, node.test, "True", "condition -> True")
                add(qual, node.test, "False", "condition -> False")
            elif isinstance(node, ast.Expr) and isinstance(node.value, ast.Call):
                add(qual, node, "pass", "delete call statement")
            elif isinstance(node, (ast.Assign, ast.AugAssign)):
                tgt = node.targets[0] if isinstance(node, ast.Assign) else node.target
                if isinstance(tgt, (ast.Attribute, ast.Subscript)):
                    add(qual, node, "pass", "delete state-changing assignment")
            elif isinstance(node, ast.Slice):
                if node.lower is not None:
                    s, e = span(node.lower)
                    add(qual, node.lower, "(" + b[s:e].decode() + ") + 1", "slice start + 1")
            elif isinstance(node, ast.keyword) and node.arg in ("deep", "strict", "merge", "case_sensitive", "passthrough"):
                if isinstance(node.value, ast.Name):
                    add(qual, node.value, "False" if node.arg != "case_sensitive" else "True",
                        f"keyword {node.arg}=<var> -> constant")
            elif isinstance(node, ast.Return) and node.value is not None and not isinstance(node.value, ast.Constant):
                if isinstance(node.value, ast.Name) and node.value.id in ("rv", "converter", "records"):
                    continue
            elif isinstance(node, ast.Call) and isinstance(node.func, ast.Name) and node.func.id == "sorted" and node.args:
                s, e = span(node)
                inner = b[slice(*span(node.args[0]))].decode()
                add(qual, node, f"list({inner})", "sorted(...) -> list(...)")

    for top in tree.body:
        if isinstance(top, ast.FunctionDef) and top.name in funcs:
            visit_func(top.name, top)
        elif isinstance(top, ast.ClassDef):
            for item in top.body:
                if isinstance(item, ast.FunctionDef):
                    q = f"{top.name}.{item.name}"
                    if q in funcs:
                        visit_func(q, item)
    # de-duplicate identical replacements
    seen = set()
    uniq = []
    for m in out:
        k = (m["start"], m["end"], m["new"])
        if k not in seen:
            seen.add(k)
            uniq.append(m)
    return uniq


def sh(cmd, **kw):
    return subprocess.run(cmd, shell=True, capture_output=True, text=True, **kw)


def evaluate(m, idx, scale):
    work = tempfile.mkdtemp(prefix=f"verif-auto-{idx}-", dir="/tmp")
    res = dict(m, id=idx)
    try:
        sh(f"rsync -a --exclude .git --exclude __pycache__ --exclude docs {REPO}/ {work}/repo/")
        path = os.path.join(work, "repo", m["file"])
        b = open(path, "rb").read()
        assert b[m["start"]:m["end"]].decode() == m["old"]
        open(path, "wb").write(b[:m["start"]] + m["new"].encode() + b[m["end"]:])
        env = f"PYTHONPATH={work}/repo/src PYTHONDONTWRITEBYTECODE=1"
        imp = sh(f"cd {work}/repo && {env} /venv/bin/python -c 'import curies, curies.reconciliation, curies.discovery'")
        if imp.returncode != 0:
            res["status"] = "does-not-import"
            return res
        t = sh(f"cd {work}/repo && {env} timeout 600 /venv/bin/python -m pytest -q -x -p no:cacheprovider --timeout=120 "
               f"--deselect tests/test_api.py::TestConverter::test_bioregistry --deselect tests/test_api.py::TestConverter::test_from_github "
               f"--deselect tests/test_api.py::TestConverter::test_go_registry --deselect tests/test_api.py::TestConverter::test_monarch "
               f"--deselect tests/test_api.py::TestConverter::test_obo --deselect tests/test_discovery.py::TestDiscovery::test_remote "
               f"--deselect tests/test_mapping_service.py::TestFastAPIMappingApp --deselect tests/test_mapping_service.py::TestUtils::test_availability "
               f"tests 2>&1 | tail -2")
        passed = re.search(r"(\d+) passed", t.stdout)
        failed = re.search(r"(\d+) failed", t.stdout) or re.search(r"(\d+) error", t.stdout)
        res["suite"] = t.stdout.strip().splitlines()[-1][:120] if t.stdout.strip() else "?"
        if failed or not passed or int(passed.group(1)) != 114:
            res["status"] = "killed-by-repo-suite"
            return res
        for prop in TARGETS[m["file"]][m["func"]]:
            envd = dict(os.environ, VERIF_REPO_SRC=f"{work}/repo/src", VERIF_OUT_DIR=f"{work}/out")
            t0 = time.time()
            c = subprocess.run([os.path.join(VERIF, "check"), prop, "--runs", str(int(RUNS[prop] * scale))],
                               capture_output=True, text=True, env=envd)
            res.setdefault("checks", []).append({"property": prop, "rc": c.returncode, "wall_s": round(time.time() - t0, 1)})
            if c.returncode == 1:
                sig = re.search(r'"signature": "([^"]+)"', c.stdout)
                res["status"] = "KILLED"
                res["by"] = prop
                res["signature"] = sig.group(1) if sig else "?"
                return res
            if c.returncode == 3:
                res["status"] = "HARNESS-ERROR"
                res["tail"] = (c.stdout + c.stderr)[-400:]
                return res
        res["status"] = "SURVIVED"
        return res
    except Exception as e:  # noqa: BLE001
        res["status"] = "tool-error"
        res["error"] = repr(e)[:300]
        return res
    finally:
        shutil.rmtree(work, ignore_errors=True)


def main():
    ap = argparse.ArgumentParser()
    ap.add_argument("--jobs", type=int, default=3)
    ap.add_argument("--limit", type=int, default=0)
    ap.add_argument("--only-func", default="")
    ap.add_argument("--runs-scale", type=float, default=1.0)
    ap.add_argument("--list", action="store_true")
    ap.add_argument("--ids", default="", help="only these mutant numbers; results are merged into the stored ones")
    a = ap.parse_args()
    allm = []
    for path, funcs in TARGETS.items():
        src = open(os.path.join(REPO, path)).read()
        allm.extend(mutants_of(path, src, funcs))
    if a.only_func:
        allm = [m for m in allm if m["func"] in a.only_func.split(",")]
    if a.limit:
        step = max(1, len(allm) // a.limit)
        allm = allm[::step][:a.limit]
    indexed = list(enumerate(allm))
    if a.ids:
        want = {int(x) for x in a.ids.split(",")}
        indexed = [(i, m) for i, m in indexed if i in want]
    print(f"{len(indexed)} mutants")
    if a.list:
        for i, m in indexed:
            print(i, m["file"], m["func"], m["line"], m["desc"], repr(m["old"][:50]), "->", repr(m["new"][:50]))
        return
    t0 = time.time()
    with ThreadPoolExecutor(max_workers=a.jobs) as ex:
        results = list(ex.map(lambda im: evaluate(im[1], im[0], a.runs_scale), indexed))
    rp = os.path.join(VERIF, "mutants", "auto_results.json")
    if a.ids and os.path.exists(rp):
        old = {r["id"]: r for r in json.load(open(rp))}
        for r in results:
            old[r["id"]] = r
        results = [old[k] for k in sorted(old)]
    os.makedirs(os.path.join(VERIF, "mutants"), exist_ok=True)
    json.dump(results, open(os.path.join(VERIF, "mutants", "auto_results.json"), "w"), indent=1)
    from collections import Counter
    cnt = Counter(r["status"] for r in results)
    head = sh(f"git -C {REPO} rev-parse --short HEAD").stdout.strip()
    with open(os.path.join(VERIF, "mutants", "AUTO_RESULTS.md"), "w") as f:
        f.write("# Systematic operator-level mutants (tools/automutate.py)\n\n")
        f.write(f"/repo {head}; {len(results)} mutants over the functions the four properties are anchored in; "
                f"wall {time.time() - t0:.0f} s.\n\n")
        f.write("| status | count |\n|---|---|\n")
        for k, v in sorted(cnt.items()):
            f.write(f"| {k} | {v} |\n")
        realistic = [r for r in results if r["status"] in ("KILLED", "SURVIVED")]
        if realistic:
            f.write(f"\nOf the {len(realistic)} mutants that import and pass the repository's own suite, "
                    f"{sum(r['status'] == 'KILLED' for r in realistic)} are killed by a quick check.\n")
        f.write("\n## Survivors (to triage)\n\n| id | where | mutation | old -> new |\n|---|---|---|---|\n")
        for r in results:
            if r["status"] == "SURVIVED":
                f.write(f"| {r['id']} | {r['file'].split('/')[-1]}:{r['line']} {r['func']} | {r['desc']} | "
                        f"`{r['old'][:60]}` -> `{r['new'][:60]}` |\n")
        f.write("\n## Killed by a check (and not by the repo suite)\n\n| id | where | mutation | by | signature |\n|---|---|---|---|---|\n")
        for r in results:
            if r["status"] == "KILLED":
                f.write(f"| {r['id']} | {r['file'].split('/')[-1]}:{r['line']} {r['func']} | {r['desc']} | {r['by']} | {r['signature']} |\n")
        others = [r for r in results if r["status"] in ("HARNESS-ERROR", "tool-error")]
        if others:
            f.write("\n## Harness / tool errors\n\n")
            for r in others:
                f.write(f"- {r['id']} {r['func']}:{r['line']} {r['desc']}: {r.get('tail') or r.get('error')}\n")
    print(dict(cnt))


if __name__ == "__main__":
    main()
