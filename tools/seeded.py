#!/venv/bin/python
"""Confirm and evaluate the seeded changes under /verif/seeded/<id>/.

For each: scratch copy of /repo (outside /repo and /verif), `git apply`-style
patch, repo suite must give the baseline 114 passes, demo.py must exit 1 on the
changed copy and 0 on a pristine copy; then the owning property's check is run
against the changed copy.  Writes seeded/<id>/meta.json and seeded/RESULTS.md.

usage: tools/seeded.py [--only id,id] [--jobs N] [--tier quick|thorough] [--budget S]
"""
import argparse
import json
import os
import re
import shutil
import subprocess
import tempfile
import time
from concurrent.futures import ThreadPoolExecutor

VERIF = os.path.dirname(os.path.dirname(os.path.abspath(__file__)))
REPO = "/repo"


def sh(cmd, **kw):
    return subprocess.run(cmd, shell=True, capture_output=True, text=True, **kw)


SEEDED_DIR = "seeded"


def run_one(sid, tier, budget):
    d = os.path.join(VERIF, SEEDED_DIR, sid)
    agent = json.load(open(os.path.join(d, "agent_meta.json"))) if os.path.exists(os.path.join(d, "agent_meta.json")) else {}
    prop = (agent.get("property") or sid[:3]).upper()[:3]
    if not (prop.startswith("C") and prop[1:].isdigit()):
        prop = "C" + sid[1:3]
    meta = {"id": sid, "property": prop, "summary": agent.get("summary"), "needs": agent.get("needs"),
            "origin": "independent sub-agent given only the property text and a scratch worktree"}
    work = tempfile.mkdtemp(prefix=f"verif-seed-{sid}-", dir="/tmp")
    try:
        sh(f"rsync -a --exclude .git --exclude __pycache__ {REPO}/ {work}/mut/")
        sh(f"rsync -a --exclude .git --exclude __pycache__ {REPO}/ {work}/orig/")
        # a patch written against an earlier /repo commit may have been rebased by hand after a fix: commit
        patch = os.path.join(d, "patch_rebased.diff") if os.path.exists(os.path.join(d, "patch_rebased.diff")) else os.path.join(d, "patch.diff")
        meta["patch_used"] = os.path.basename(patch)
        ap = sh(f"cd {work}/mut && git init -q . && git apply --whitespace=nowarn {patch}")
        if ap.returncode != 0 and patch.endswith("patch.diff"):
            # written against /repo 230dfa6; commit a428420 changed the five `df[column].map(func)` call
            # sites: carry that rewording into the context / removed lines of the patch and try again
            txt = open(patch).read().splitlines(keepends=True)
            txt = [ln.replace("df[column].map(func)", "_get_cells(df, column).map(func)")
                   if ln[:1] in (" ", "-") and not ln.startswith("---") else ln for ln in txt]
            auto = os.path.join(work, "auto_rebased.diff")
            open(auto, "w").write("".join(txt))
            ap = sh(f"cd {work}/mut && git apply --whitespace=nowarn {auto}")
            if ap.returncode == 0:
                meta["patch_used"] = "patch.diff (context auto-rebased onto a428420)"
                shutil.copy(auto, os.path.join(d, "patch_rebased.diff"))
        if ap.returncode != 0 and patch.endswith("patch.diff"):
            # last resort: GNU patch with fuzz (commit a428420 also inserted a helper right after
            # get_subconverter, which moved the context of patches touching that region)
            src_patch = os.path.join(work, "auto_rebased.diff") if os.path.exists(os.path.join(work, "auto_rebased.diff")) else patch
            sh(f"rm -rf {work}/mut && rsync -a --exclude .git --exclude __pycache__ {REPO}/ {work}/mut/")
            ap = sh(f"cd {work}/mut && patch -p1 -F3 --no-backup-if-mismatch < {src_patch}")
            if ap.returncode == 0:
                dd = sh(f"cd {work} && diff -ru orig/src mut/src | sed -e 's#^--- orig/#--- a/#' -e 's#^+++ mut/#+++ b/#'")
                open(os.path.join(d, "patch_rebased.diff"), "w").write(dd.stdout)
                meta["patch_used"] = "patch.diff (rebased onto a428420 with patch -F3)"
        meta["patch_applies"] = ap.returncode == 0
        if ap.returncode != 0:
            meta["error"] = ap.stderr[-500:]
            return meta
        env = "PYTHONDONTWRITEBYTECODE=1"
        t = sh(f"cd {work}/mut && {env} PYTHONPATH={work}/mut/src /venv/bin/python -m pytest -q -p no:cacheprovider --timeout=900 tests 2>&1 | tail -3")
        mm = re.search(r"(\d+) failed, (\d+) passed", t.stdout)
        meta["suite"] = t.stdout.strip().splitlines()[-1] if t.stdout.strip() else "?"
        meta["suite_ok"] = bool(mm and mm.group(2) == "114" and mm.group(1) == "11")
        dm = sh(f"cd {work} && {env} PYTHONPATH={work}/mut/src /venv/bin/python {d}/demo.py")
        do = sh(f"cd {work} && {env} PYTHONPATH={work}/orig/src /venv/bin/python {d}/demo.py")
        meta["demo_exit_changed"] = dm.returncode
        meta["demo_exit_pristine"] = do.returncode
        quiet = sid.startswith(("q", "f", "g", "i", "k", "m", "o", "r"))      # q*: refactorings; f*: legitimate changes found by false-alarm hunters
        meta["kind"] = "behaviour-preserving refactoring (the check must stay QUIET)" if quiet else "seeded bug"
        if quiet:
            meta["changes_not_promised"] = agent.get("changes_not_promised")
            meta["confirmed"] = meta["suite_ok"] and dm.returncode == 0 and do.returncode == 0
        else:
            meta["confirmed"] = meta["suite_ok"] and dm.returncode == 1 and do.returncode == 0
        envd = dict(os.environ, VERIF_REPO_SRC=f"{work}/mut/src", VERIF_OUT_DIR=f"{work}/out")
        if budget:
            envd["VERIF_BUDGET_S"] = str(budget)
        t0 = time.time()
        c = subprocess.run([os.path.join(VERIF, "check"), prop, "--tier", tier], capture_output=True, text=True, env=envd)
        meta["check"] = {"cmd": f"VERIF_REPO_SRC=<copy>/src ./check {prop} --tier {tier}", "rc": c.returncode,
                         "wall_s": round(time.time() - t0, 1)}
        for ln in c.stdout.splitlines():
            if ln.startswith("VIOLATION-DETAIL"):
                mm2 = re.search(r'"signature": "([^"]+)"', ln)
                meta["check"]["signature"] = mm2.group(1) if mm2 else "?"
            if ln.startswith("MINIMISED "):
                meta["check"]["minimised"] = json.loads(ln[len("MINIMISED "):])
            if ln.startswith("RUNS "):
                meta["check"]["runs_line"] = ln
            if ln.startswith("VIOLATION property="):
                rp = ln.split("replay=")[1].strip()
                if os.path.exists(rp):
                    shutil.copy(rp, os.path.join(d, "replay_found_by_check.json"))
                    meta["check"]["replay"] = f"{SEEDED_DIR}/{sid}/replay_found_by_check.json"
        meta["caught"] = c.returncode == 1
        if quiet:
            meta["quiet_ok"] = c.returncode == 0
            if c.returncode != 0:
                meta["check"]["tail"] = c.stdout[-1500:]
            # a legitimate change must leave ALL FOUR checks quiet, not only the one it was aimed at
            meta["other_checks"] = {}
            for other in ("C01", "C05", "C10", "C16"):
                if other == prop:
                    continue
                t1 = time.time()
                co = subprocess.run([os.path.join(VERIF, "check"), other, "--tier", tier], capture_output=True, text=True,
                                    env=dict(envd, VERIF_OUT_DIR=f"{work}/out_{other}"))
                sig = None
                for ln in co.stdout.splitlines():
                    if ln.startswith("VIOLATION-DETAIL"):
                        mm3 = re.search(r'"signature": "([^"]+)"', ln)
                        sig = mm3.group(1) if mm3 else "?"
                    if ln.startswith("HARNESS-ERROR") and sig is None:
                        sig = ln[:200]
                meta["other_checks"][other] = {"rc": co.returncode, "wall_s": round(time.time() - t1, 1), "signature": sig}
                may = []
                ep = os.path.join(d, "expect.json")
                if os.path.exists(ep):
                    may = json.load(open(ep)).get("may_alarm", [])
                if co.returncode != 0 and other in may:
                    meta["other_checks"][other]["expected"] = True      # see the seed's expect.json
                elif co.returncode != 0:
                    meta["quiet_ok"] = False
                    meta["check"].setdefault("signature", f"{other}: {sig}")
        if c.returncode == 3:
            meta["check"]["harness_error"] = (c.stdout + c.stderr)[-800:]
        return meta
    finally:
        shutil.rmtree(work, ignore_errors=True)


def main():
    ap = argparse.ArgumentParser()
    ap.add_argument("--only", default="")
    ap.add_argument("--jobs", type=int, default=2)
    ap.add_argument("--tier", default="quick")
    ap.add_argument("--budget", type=float, default=None)
    ap.add_argument("--dir", default="seeded", help="seeded (independent sub-agents) or seeded_whitebox")
    a = ap.parse_args()
    global SEEDED_DIR
    SEEDED_DIR = a.dir
    def _has_patch(x):
        d = os.path.join(VERIF, SEEDED_DIR, x)
        return any(os.path.isfile(os.path.join(d, f)) and os.path.getsize(os.path.join(d, f)) > 0
                   for f in ("patch_rebased.diff", "patch.diff"))

    # (a directory with an empty patch records an environment-only finding: nothing to apply)
    ids = sorted(x for x in os.listdir(os.path.join(VERIF, SEEDED_DIR))
                 if os.path.isdir(os.path.join(VERIF, SEEDED_DIR, x)) and _has_patch(x))
    if a.only:
        ids = [i for i in ids if i in a.only.split(",")]
    with ThreadPoolExecutor(max_workers=a.jobs) as ex:
        res = list(ex.map(lambda i: run_one(i, a.tier, a.budget), ids))
    for m in res:
        p = os.path.join(VERIF, SEEDED_DIR, m["id"], "meta.json")
        old = json.load(open(p)) if os.path.exists(p) else {}
        hist = old.get("history", [])
        if "check" in m:
            hist.append({"tier": a.tier, "caught": m.get("caught"), "signature": m["check"].get("signature"),
                         "wall_s": m["check"].get("wall_s"), "verif_head": sh(f"git -C {VERIF} rev-parse --short HEAD").stdout.strip()})
        m["history"] = hist[-12:]
        json.dump(m, open(p, "w"), indent=1)
        verdict = ("QUIET" if m.get("quiet_ok") else "FALSE-ALARM?") if m["id"].startswith(("q", "f", "g", "i", "k", "m", "o", "r")) else ("CAUGHT" if m.get("caught") else "MISSED")
        print(m["id"], "confirmed" if m.get("confirmed") else "NOT-CONFIRMED", verdict,
              m.get("check", {}).get("signature", ""), m.get("check", {}).get("wall_s"))
    allm = []
    for i in sorted(os.listdir(os.path.join(VERIF, SEEDED_DIR))):
        p = os.path.join(VERIF, SEEDED_DIR, i, "meta.json")
        if os.path.exists(p):
            allm.append(json.load(open(p)))
    with open(os.path.join(VERIF, SEEDED_DIR, "RESULTS.md"), "w") as f:
        f.write("# Seeded changes (" + ("written by independent sub-agents" if SEEDED_DIR == "seeded" else "written by WHITE-BOX adversary agents that could read /verif and run the checks") + "): confirmation and detection\n\n")
        f.write("| id | property | confirmed (suite 114/11, demo 1/0) | latest check | signature | what it needs |\n|---|---|---|---|---|---|\n")
        for m in allm:
            verdict = ("QUIET" if m.get("quiet_ok") else "FALSE-ALARM?") if m["id"].startswith(("q", "f", "g", "i", "k", "m", "o", "r")) else ("CAUGHT" if m.get("caught") else "MISSED")
            f.write(f"| {m['id']} | {m['property']} | {m.get('confirmed')} | {verdict} "
                    f"({m.get('check', {}).get('wall_s')} s) | {m.get('check', {}).get('signature', '')} | {(m.get('needs') or '')[:300]} |\n")


if __name__ == "__main__":
    main()
