#!/venv/bin/python
"""Sensitivity and quietness catalogue (DESIGN.md section 5).

Each entry is a textual replacement in /repo/src/curies.  For every entry the
tool makes a scratch copy of the repository outside /repo and /verif, applies
the replacement, runs the repository's own test suite (a mutant that the suite
already kills is marked 'unrealistic'), runs the owning property's quick check
against the copy (VERIF_REPO_SRC, outputs redirected with VERIF_OUT_DIR), then
removes the copy.  Results go to mutants/RESULTS.md and mutants/results.json,
patches to mutants/<name>.patch.

usage: tools/mutants.py [--only name,name] [--jobs N] [--kind mutant|quiet]
"""
from __future__ import annotations

import argparse
import json
import os
import re
import shutil
import subprocess
import sys
import tempfile
import time
from concurrent.futures import ThreadPoolExecutor

VERIF = os.path.dirname(os.path.dirname(os.path.abspath(__file__)))
REPO = "/repo"
API = "src/curies/api.py"
REC = "src/curies/reconciliation.py"

# (name, kind, property, file, old, new, note)
M = []


def m(name, prop, file, old, new, note, kind="mutant"):
    M.append({"name": name, "kind": kind, "property": prop, "file": file, "old": old, "new": new, "note": note})


# ------------------------------------------------------------------ C01
m("c01_shortest_match", "C01", API,
  "            value, prefix = self.trie.longest_prefix_item(uri)\n",
  "            value, prefix = next(iter(self.trie.iter_prefix_items(uri)), (None, None))\n"
  "            if value is None:\n                raise KeyError\n",
  "parse_uri takes the shortest registered URI prefix instead of the longest")
m("c01_index_no_trie_synonym", "C01", API,
  "            self.reverse_prefix_map[uri_prefix_synonym] = record.prefix\n            self.trie[uri_prefix_synonym] = record.prefix\n",
  "            self.reverse_prefix_map[uri_prefix_synonym] = record.prefix\n",
  "_index forgets to put URI-prefix synonyms into the trie (incremental path only)")
m("c01_index_no_trie_canonical", "C01", API,
  "        self.reverse_prefix_map[record.uri_prefix] = record.prefix\n        self.trie[record.uri_prefix] = record.prefix\n",
  "        self.reverse_prefix_map[record.uri_prefix] = record.prefix\n        if not self.trie.keys(record.uri_prefix):\n            self.trie[record.uri_prefix] = record.prefix\n",
  "_index skips the trie insert of a canonical URI prefix when a longer key already exists below it (order dependent)")
m("c01_remainder_replace_all", "C01", API,
  "            return ReferenceTuple(prefix, uri[len(value) :])\n",
  "            return ReferenceTuple(prefix, uri.replace(value, \"\"))\n",
  "identifier taken with str.replace (all occurrences) instead of slicing")
m("c01_remainder_lstrip", "C01", API,
  "            return ReferenceTuple(prefix, uri[len(value) :])\n",
  "            return ReferenceTuple(prefix, uri[len(value) :].lstrip(value[-1:]))\n",
  "identifier additionally stripped of repeated trailing prefix character")
m("c01_format_curie_colon", "C01", API,
  '        return f"{prefix}{self.delimiter}{identifier}"\n',
  '        return f"{prefix}:{identifier}"\n',
  "format_curie hard-codes ':'")
m("c01_ctor_trie_canonical_only", "C01", API,
  "        self.trie = StringTrie(self.reverse_prefix_map)\n",
  "        self.trie = StringTrie(self.reverse_bimap)\n",
  "constructor builds the trie from canonical URI prefixes only")
m("c01_merge_indexes_submitted", "C01", API,
  "            self._merge(record, into=existing_record)\n            self._index(existing_record)\n",
  "            self._merge(record, into=existing_record)\n            self._index(record)\n",
  "after a merge the *submitted* record is indexed: new URI prefixes point at the submitted CURIE prefix")
m("c01_parse_uri_empty_string_guard", "C01", API,
  "        try:\n            value, prefix = self.trie.longest_prefix_item(uri)\n",
  "        try:\n            if not uri:\n                raise KeyError\n            value, prefix = self.trie.longest_prefix_item(uri)\n",
  "'optimisation': the empty string is never looked up (wrong when the empty URI prefix is registered)")

# ------------------------------------------------------------------ C05
m("c05_merge_before_flag_test", "C05", API,
  "            if not merge:\n                raise ValueError(f\"new record already exists and merge=False: {matched}\")\n\n            key = next(iter(matched))\n            existing_record = next(r for r in self.records if r._key == key)\n            self._merge(record, into=existing_record)\n",
  "            key = next(iter(matched))\n            existing_record = next(r for r in self.records if r._key == key)\n            self._merge(record, into=existing_record)\n            if not merge:\n                raise ValueError(f\"new record already exists and merge=False: {matched}\")\n",
  "mutate-then-reject: the merge happens before the merge flag is tested")
m("c05_index_skip_synonym_to_prefix", "C05", API,
  "            self.prefix_map[prefix_synonym] = record.uri_prefix\n            self.synonym_to_prefix[prefix_synonym] = record.prefix\n",
  "            self.prefix_map[prefix_synonym] = record.uri_prefix\n",
  "_index does not update synonym_to_prefix for CURIE-prefix synonyms")
m("c05_index_skip_prefix_map_synonym", "C05", API,
  "            self.prefix_map[prefix_synonym] = record.uri_prefix\n            self.synonym_to_prefix[prefix_synonym] = record.prefix\n",
  "            self.synonym_to_prefix[prefix_synonym] = record.prefix\n",
  "_index does not update prefix_map for CURIE-prefix synonyms")
m("c05_index_skip_reverse_map_synonym", "C05", API,
  "            self.reverse_prefix_map[uri_prefix_synonym] = record.prefix\n            self.trie[uri_prefix_synonym] = record.prefix\n",
  "            self.trie[uri_prefix_synonym] = record.prefix\n",
  "_index does not update reverse_prefix_map for URI-prefix synonyms")
m("c05_merge_replaces_uri_prefix", "C05", API,
  "        into.uri_prefix_synonyms.sort()\n",
  "        into.uri_prefix_synonyms.sort()\n        if record.uri_prefix in into.uri_prefix_synonyms and len(record.uri_prefix) < len(into.uri_prefix):\n            into.uri_prefix_synonyms.remove(record.uri_prefix)\n            into.uri_prefix_synonyms.append(into.uri_prefix)\n            into.uri_prefix_synonyms.sort()\n            into.uri_prefix = record.uri_prefix\n",
  "_merge prefers the shorter URI prefix as canonical (existing canonical URI prefix not kept)")
m("c05_merge_adopts_pattern", "C05", API,
  "        into.uri_prefix_synonyms.sort()\n",
  "        into.uri_prefix_synonyms.sort()\n        if into.pattern is None:\n            into.pattern = record.pattern\n",
  "_merge adopts the submitted record's pattern when the existing record has none (and the index is not told)")
m("c05_in_no_casefold", "C05", API,
  "    return any(nfa == b.casefold() for b in bs)\n",
  "    return any(nfa == b for b in bs)\n",
  "_in folds only one side: case-insensitive matching against synonyms is broken")
m("c05_match_drops_synonym_vs_canonical", "C05", API,
  "            for prefix_synonym in external.prefix_synonyms:\n                if _eq(prefix_synonym, record.prefix, case_sensitive=case_sensitive):\n                    rv[record._key].append(\"prefix match\")\n",
  "            for prefix_synonym in external.prefix_synonyms:\n",
  "_match_record no longer compares the submission's synonyms with existing canonical prefixes")
m("c05_match_drops_uri_synonym_vs_synonym", "C05", API,
  "                if _in(\n                    uri_prefix_synonym, record.uri_prefix_synonyms, case_sensitive=case_sensitive\n                ):\n                    rv[record._key].append(\"URI prefix match\")\n",
  "",
  "_match_record no longer compares the submission's URI synonyms with existing URI synonyms")
m("c05_add_prefix_drops_uri_synonyms", "C05", API,
  "            uri_prefix_synonyms=sorted(uri_prefix_synonyms or []),\n        )\n        self.add_record(record, case_sensitive=case_sensitive, merge=merge)",
  "            uri_prefix_synonyms=[],\n        )\n        self.add_record(record, case_sensitive=case_sensitive, merge=merge)",
  "add_prefix drops uri_prefix_synonyms")
m("c05_add_prefix_ignores_case_flag", "C05", API,
  "        self.add_record(record, case_sensitive=case_sensitive, merge=merge)",
  "        self.add_record(record, merge=merge)",
  "add_prefix does not pass case_sensitive on")
m("c05_multi_match_merges_first", "C05", API,
  "        if len(matched) > 1:\n            msg = \"\".join(f\"\\n  {m} -> {v}\" for m, v in matched.items())\n            raise ValueError(f\"new record has duplicates:{msg}\")\n        if len(matched) == 1:",
  "        if len(matched) > 1 and not merge:\n            msg = \"\".join(f\"\\n  {m} -> {v}\" for m, v in matched.items())\n            raise ValueError(f\"new record has duplicates:{msg}\")\n        if len(matched) >= 1:",
  "a submission bridging two records is merged into the first instead of rejected when merge=True")
m("c05_reject_after_append", "C05", API,
  "            # Append a new record\n            self.records.append(record)\n            self._index(record)\n",
  "            # Append a new record\n            self._index(record)\n            if not record.prefix:\n                raise ValueError(\"empty prefix\")\n            self.records.append(record)\n",
  "a new validation rejects empty prefixes after the indexes were already updated")
m("c05_merge_case_insensitive_dedup", "C05", API,
  "        for prefix_synonym in itt.chain([record.prefix], record.prefix_synonyms):\n            if prefix_synonym not in into._all_prefixes:\n",
  "        for prefix_synonym in itt.chain([record.prefix], record.prefix_synonyms):\n            if prefix_synonym.casefold() not in {p.casefold() for p in into._all_prefixes}:\n",
  "_merge drops CURIE prefixes that differ only in case from an existing one (then they do not resolve)")

# ------------------------------------------------------------------ C10
m("c10_chain_no_copy", "C10", API,
  "            rv.add_record(record.model_copy(deep=True), case_sensitive=case_sensitive, merge=True)\n",
  "            rv.add_record(record, case_sensitive=case_sensitive, merge=True)\n",
  "chain shares the inputs' Record objects again")
m("c10_chain_shallow_copy", "C10", API,
  "            rv.add_record(record.model_copy(deep=True), case_sensitive=case_sensitive, merge=True)\n",
  "            rv.add_record(record.model_copy(), case_sensitive=case_sensitive, merge=True)\n",
  "chain copies records shallowly: the synonym *lists* stay shared")
m("c10_chain_copy_only_later", "C10", API,
  "    for converter in converters:\n        for record in converter.records:\n            # copy, since records get merged into in place\n            rv.add_record(record.model_copy(deep=True), case_sensitive=case_sensitive, merge=True)\n",
  "    for i, converter in enumerate(converters):\n        for record in converter.records:\n            # copy, since records get merged into in place\n            if i > 0:\n                record = record.model_copy(deep=True)\n            rv.add_record(record, case_sensitive=case_sensitive, merge=True)\n",
  "chain copies only the records of the 2nd.. converters ('only those can be merged'): the first converter's records are the targets of the merges")
m("c10_sub_no_copy", "C10", API,
  "            record.model_copy(deep=True)\n            for record in self.records\n            if any(prefix in prefixes",
  "            record\n            for record in self.records\n            if any(prefix in prefixes",
  "get_subconverter shares the parent's Record objects again (visible only after a follow-up merge)")
m("c10_sub_shallow_copy", "C10", API,
  "            record.model_copy(deep=True)\n            for record in self.records\n            if any(prefix in prefixes",
  "            record.model_copy()\n            for record in self.records\n            if any(prefix in prefixes",
  "get_subconverter copies shallowly")
m("c10_remap_curie_no_copy", "C10", REC,
  "    converter = _copy(converter)\n    ordering = _order_curie_remapping(converter, remapping)\n",
  "    ordering = _order_curie_remapping(converter, remapping)\n",
  "remap_curie_prefixes works on the input's records again")
m("c10_remap_uri_no_copy", "C10", REC,
  "        raise TransitiveError(intersection)\n\n    converter = _copy(converter)\n",
  "        raise TransitiveError(intersection)\n\n",
  "remap_uri_prefixes works on the input's records again")
m("c10_rewire_no_copy", "C10", REC,
  "    :returns: An upgraded converter\n    \"\"\"\n    converter = _copy(converter)\n    records = []\n    for record in converter.records:\n        new_uri_prefix = _get_curie_preferred_or_synonym",
  "    :returns: An upgraded converter\n    \"\"\"\n    records = []\n    for record in converter.records:\n        new_uri_prefix = _get_curie_preferred_or_synonym",
  "rewire works on the input's records again")
m("c10_copy_shallow", "C10", REC,
  "        [record.model_copy(deep=True) for record in converter.records],\n",
  "        [record.model_copy() for record in converter.records],\n",
  "reconciliation._copy is shallow: untouched records keep sharing their synonym lists with the input")
m("c10_copy_only_if_modified", "C10", REC,
  "    converter = _copy(converter)\n    records = []\n    for record in converter.records:\n        new_uri_prefix = _get_curie_preferred_or_synonym",
  "    if any(k in converter.synonym_to_prefix for k in rewiring):\n        converter = _copy(converter)\n    records = []\n    for record in converter.records:\n        new_uri_prefix = _get_curie_preferred_or_synonym",
  "rewire copies only when some key applies; otherwise the 'unchanged' records are shared with the result")
m("c10_discover_registers_in_input", "C10", "src/curies/discovery.py",
  "    return Converter(records)\n\n\n#: The default delimiters",
  "    if converter is not None and cutoff is None:\n        for record in records:\n            converter.add_record(record, merge=True)\n    return Converter(records)\n\n\n#: The default delimiters",
  "discover 'helpfully' registers what it found in the converter that was passed in")

# ------------------------------------------------------------------ C16
m("c16_lazy_rewrite", "C16", API,
  "        with path.open(newline=\"\") as file_in:\n            reader = csv.reader(file_in, delimiter=delimiter)\n            _header = next(reader) if header else None\n            for row in reader:\n                row[column] = func(row[column]) or \"\"\n                rows.append(row)\n        with path.open(\"w\", newline=\"\") as file_out:\n            writer = csv.writer(file_out, delimiter=delimiter)\n            if _header:\n                writer.writerow(_header)\n            writer.writerows(rows)\n",
  "        with path.open(newline=\"\") as file_in:\n            reader = csv.reader(file_in, delimiter=delimiter)\n            _header = next(reader) if header else None\n            rows = list(reader)\n\n        def _convert():\n            for row in rows:\n                row[column] = func(row[column]) or \"\"\n                yield row\n\n        with path.open(\"w\", newline=\"\") as file_out:\n            writer = csv.writer(file_out, delimiter=delimiter)\n            if _header:\n                writer.writerow(_header)\n            writer.writerows(_convert())\n",
  "rows are converted lazily while writing: the file is truncated before a failing cell is met")
m("c16_chunked_flush", "C16", API,
  "                row[column] = func(row[column]) or \"\"\n                rows.append(row)\n",
  "                if len(rows) == 4:\n                    # start writing early to bound memory\n                    with path.open(\"w\", newline=\"\") as _f:\n                        csv.writer(_f, delimiter=delimiter).writerows(([_header] if _header else []) + rows)\n                row[column] = func(row[column]) or \"\"\n                rows.append(row)\n",
  "a partial result is flushed once four rows were converted: atomicity lost only for failures at row >= 4")
m("c16_swallow_errors", "C16", API,
  "                row[column] = func(row[column]) or \"\"\n                rows.append(row)\n",
  "                try:\n                    row[column] = func(row[column]) or \"\"\n                except ValueError:\n                    pass\n                rows.append(row)\n",
  "conversion errors are swallowed and the cell kept")
m("c16_header_dropped_if_blank", "C16", API,
  "            if _header:\n                writer.writerow(_header)\n",
  "            if _header and any(_header):\n                writer.writerow(_header)\n",
  "a header whose cells are all empty strings is dropped")
m("c16_rows_deduplicated", "C16", API,
  "            writer.writerows(rows)\n",
  "            writer.writerows(list(dict.fromkeys(map(tuple, rows))))\n",
  "duplicate rows are dropped on rewrite")
m("c16_missing_keeps_input", "C16", API,
  "                row[column] = func(row[column]) or \"\"\n",
  "                row[column] = func(row[column]) or row[column]\n",
  "cells without result keep their input instead of becoming empty")
m("c16_file_expand_ignores_passthrough", "C16", API,
  "        pre_func = self.expand_or_standardize if ambiguous else self.expand\n        func = partial(pre_func, strict=strict, passthrough=passthrough)  # type:ignore\n        self._file_helper(",
  "        pre_func = self.expand_or_standardize if ambiguous else self.expand\n        func = partial(pre_func, strict=strict)  # type:ignore\n        self._file_helper(",
  "file_expand ignores passthrough")
m("c16_file_compress_ambiguous_swapped", "C16", API,
  "        pre_func = self.compress_or_standardize if ambiguous else self.compress\n        func = partial(pre_func, strict=strict, passthrough=passthrough)  # type:ignore\n        self._file_helper(",
  "        pre_func = self.compress if ambiguous else self.compress\n        func = partial(pre_func, strict=strict, passthrough=passthrough)  # type:ignore\n        self._file_helper(",
  "file_compress ignores ambiguous")
m("c16_file_sep_not_passed_on_write", "C16", API,
  "            writer = csv.writer(file_out, delimiter=delimiter)\n            if _header:",
  "            writer = csv.writer(file_out, delimiter=\"\\t\" if delimiter == \"|\" else delimiter)\n            if _header:",
  "one custom separator is not honoured on rewrite")
m("c16_pd_target_ignored_in_standardize_uri", "C16", API,
  "        func = partial(self.standardize_uri, strict=strict, passthrough=passthrough)\n        df[column if target_column is None else target_column] = _get_cells(df, column).map(func)\n",
  "        func = partial(self.standardize_uri, strict=strict, passthrough=passthrough)\n        df[column] = _get_cells(df, column).map(func)\n",
  "pd_standardize_uri ignores target_column")
m("c16_pd_expand_strict_dropped", "C16", API,
  "        pre_func = self.expand_or_standardize if ambiguous else self.expand\n        func = partial(pre_func, strict=strict, passthrough=passthrough)  # type:ignore\n        df[",
  "        pre_func = self.expand_or_standardize if ambiguous else self.expand\n        func = partial(pre_func, passthrough=passthrough)  # type:ignore\n        df[",
  "pd_expand ignores strict")
m("c16_rewrite_without_newline_arg", "C16", API,
  "        with path.open(\"w\", newline=\"\") as file_out:\n",
  "        with path.open(\"w\") as file_out:\n        ".rstrip(" ") ,
  "the write handle loses newline='' again (harmless on POSIX for the written bytes; expected QUIET on Linux)", kind="quiet")

# ---------------------------------------------------------- quiet refactors
m("q_merge_no_sort", "C05", API,
  "        into.prefix_synonyms.sort()\n", "",
  "_merge no longer sorts CURIE synonyms (order of synonyms is not observable by the property)", kind="quiet")
m("q_add_record_stores_copy", "C05", API,
  "            self.records.append(record)\n            self._index(record)\n",
  "            record = record.model_copy(deep=True)\n            self.records.append(record)\n            self._index(record)\n",
  "add_record stores a copy of the submitted record", kind="quiet")
m("q_ctor_no_sort", "C05", API,
  "        records = sorted(records, key=lambda r: r.prefix)\n",
  "        records = list(records)\n",
  "Converter.__init__ keeps the given record order", kind="quiet")
m("q_file_tmp_rename", "C16", API,
  "        with path.open(\"w\", newline=\"\") as file_out:\n            writer = csv.writer(file_out, delimiter=delimiter)\n            if _header:\n                writer.writerow(_header)\n            writer.writerows(rows)\n",
  "        tmp = path.with_name(path.name + \".tmp\")\n        with tmp.open(\"w\", newline=\"\") as file_out:\n            writer = csv.writer(file_out, delimiter=delimiter)\n            if _header:\n                writer.writerow(_header)\n            writer.writerows(rows)\n        tmp.replace(path)\n",
  "_file_helper writes through a temporary file and renames", kind="quiet")
m("q_sub_reversed_iteration", "C10", API,
  "            for record in self.records\n            if any(prefix in prefixes",
  "            for record in reversed(self.records)\n            if any(prefix in prefixes",
  "get_subconverter iterates in another order", kind="quiet")
m("q_error_messages_reworded", "C05", API,
  "raise ValueError(f\"new record already exists and merge=False: {matched}\")",
  "raise ValueError(f\"record exists already (pass merge=True to merge): {sorted(matched)}\")",
  "error message reworded", kind="quiet")
m("q_index_rebuilds_reverse_map", "C05", API,
  "        self.reverse_prefix_map[record.uri_prefix] = record.prefix\n        self.trie[record.uri_prefix] = record.prefix\n",
  "        self.reverse_prefix_map = {**_get_reverse_prefix_map(self.records), record.uri_prefix: record.prefix}\n        self.trie[record.uri_prefix] = record.prefix\n",
  "reverse_prefix_map rebuilt wholesale instead of updated", kind="quiet")
m("q_chain_copies_via_dump", "C10", API,
  "            rv.add_record(record.model_copy(deep=True), case_sensitive=case_sensitive, merge=True)\n",
  "            rv.add_record(Record(**record.model_dump()), case_sensitive=case_sensitive, merge=True)\n",
  "chain copies records by dump/reload", kind="quiet")
m("q_parse_uri_bruteforce", "C01", API,
  "            value, prefix = self.trie.longest_prefix_item(uri)\n",
  "            value = max((p for p in self.reverse_prefix_map if uri.startswith(p)), key=len, default=None)\n            if value is None:\n                raise KeyError\n            prefix = self.reverse_prefix_map[value]\n",
  "parse_uri by brute force over reverse_prefix_map instead of the trie", kind="quiet")


BASELINE_PASS = 114


def sh(cmd, **kw):
    return subprocess.run(cmd, shell=True, capture_output=True, text=True, **kw)


def run_one(entry, keep=False):
    name = entry["name"]
    work = tempfile.mkdtemp(prefix=f"verif-mut-{name}-", dir="/tmp")
    res = {"name": name, "kind": entry["kind"], "property": entry["property"], "note": entry["note"]}
    try:
        sh(f"rsync -a --exclude .git --exclude __pycache__ {REPO}/ {work}/repo/")
        path = os.path.join(work, "repo", entry["file"])
        src = open(path).read()
        if entry["old"] not in src or src.count(entry["old"]) != 1:
            res["status"] = "PATCH-DOES-NOT-APPLY"
            res["count"] = src.count(entry["old"])
            return res
        open(path, "w").write(src.replace(entry["old"], entry["new"]))
        d = sh(f"diff -u {REPO}/{entry['file']} {path} | sed -e 's#{work}/repo/#b/#' -e 's#{REPO}/#a/#'")
        os.makedirs(os.path.join(VERIF, "mutants"), exist_ok=True)
        open(os.path.join(VERIF, "mutants", name + ".patch"), "w").write(d.stdout)
        # does it compile / import?
        imp = sh(f"cd {work}/repo && PYTHONPATH={work}/repo/src PYTHONDONTWRITEBYTECODE=1 /venv/bin/python -c 'import curies, curies.reconciliation, curies.discovery'")
        if imp.returncode != 0:
            res["status"] = "DOES-NOT-IMPORT"
            res["stderr"] = imp.stderr[-400:]
            return res
        t = sh(f"cd {work}/repo && PYTHONPATH={work}/repo/src PYTHONDONTWRITEBYTECODE=1 /venv/bin/python -m pytest -q -p no:cacheprovider --timeout=900 tests 2>&1 | tail -3")
        mm = re.search(r"(\d+) passed", t.stdout)
        passed = int(mm.group(1)) if mm else -1
        res["suite_passed"] = passed
        res["suite_ok"] = passed == BASELINE_PASS
        env = dict(os.environ, VERIF_REPO_SRC=f"{work}/repo/src", VERIF_OUT_DIR=f"{work}/out")
        t0 = time.time()
        c = subprocess.run([os.path.join(VERIF, "check"), entry["property"], "--tier", "quick"],
                           capture_output=True, text=True, env=env)
        res["check_rc"] = c.returncode
        res["check_wall_s"] = round(time.time() - t0, 1)
        vio = [ln for ln in c.stdout.splitlines() if ln.startswith("VIOLATION-DETAIL")]
        if vio:
            try:
                res["signature"] = json.loads(vio[0][len("VIOLATION-DETAIL "):][:2500].split('"detail"')[0].rstrip(", ") + "}")["signature"]
            except Exception:
                mm2 = re.search(r'"signature": "([^"]+)"', vio[0])
                res["signature"] = mm2.group(1) if mm2 else "?"
        runs = [ln for ln in c.stdout.splitlines() if ln.startswith("RUNS ")]
        if runs:
            res["runs_line"] = runs[0]
        mi = [ln for ln in c.stdout.splitlines() if ln.startswith("MINIMISED ")]
        if mi:
            res["minimised"] = json.loads(mi[0][len("MINIMISED "):])
        if c.returncode == 3:
            res["harness_error"] = (c.stdout + c.stderr)[-600:]
        if entry["kind"] == "quiet":
            res["status"] = "QUIET" if c.returncode == 0 else ("FALSE-ALARM" if c.returncode == 1 else "HARNESS-ERROR")
        else:
            if c.returncode == 1:
                res["status"] = "KILLED" if res["suite_ok"] else "KILLED (suite also fails: unrealistic)"
            elif c.returncode == 0:
                res["status"] = "MISSED" if res["suite_ok"] else "MISSED (suite fails: unrealistic)"
            else:
                res["status"] = "HARNESS-ERROR"
        return res
    finally:
        if not keep:
            shutil.rmtree(work, ignore_errors=True)


def main():
    ap = argparse.ArgumentParser()
    ap.add_argument("--only", default="")
    ap.add_argument("--kind", default="")
    ap.add_argument("--jobs", type=int, default=1)
    ap.add_argument("--keep", action="store_true")
    a = ap.parse_args()
    sel = [e for e in M if (not a.only or e["name"] in a.only.split(",")) and (not a.kind or e["kind"] == a.kind)]
    with ThreadPoolExecutor(max_workers=a.jobs) as ex:
        results = list(ex.map(lambda e: run_one(e, a.keep), sel))
    for r in results:
        print(json.dumps(r))
    rp = os.path.join(VERIF, "mutants", "results.json")
    old = {}
    if os.path.exists(rp):
        old = {r["name"]: r for r in json.load(open(rp))}
    for r in results:
        old[r["name"]] = r
    order = [e["name"] for e in M]
    allr = [old[n] for n in order if n in old]
    json.dump(allr, open(rp, "w"), indent=1)
    head = sh(f"git -C {REPO} rev-parse --short HEAD").stdout.strip()
    with open(os.path.join(VERIF, "mutants", "RESULTS.md"), "w") as f:
        f.write("# Own mutant / refactoring catalogue: results\n\n")
        f.write(f"Generated by tools/mutants.py against /repo {head}; each entry applied to a scratch copy, repo suite run, "
                "owning quick check run with VERIF_REPO_SRC pointing at the copy.\n\n")
        f.write("| name | kind | property | repo suite (114 expected) | check | signature / note | wall s |\n|---|---|---|---|---|---|---|\n")
        for r in allr:
            f.write(f"| {r['name']} | {r['kind']} | {r['property']} | {r.get('suite_passed', '-')} | {r.get('status')} | "
                    f"{r.get('signature', '')} - {r['note']} | {r.get('check_wall_s', '')} |\n")
    bad = [r for r in results if r.get("status") in ("MISSED", "FALSE-ALARM", "HARNESS-ERROR", "PATCH-DOES-NOT-APPLY", "DOES-NOT-IMPORT")]
    print(f"{len(results)} entries, {len(bad)} need attention: {[r['name'] + ':' + r['status'] for r in bad]}")


if __name__ == "__main__":
    main()
