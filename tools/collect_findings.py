"""Collect one minimised replay per violation signature on the current tree.

Usage: tools/collect_findings.py <PROP> <n_seeds> <outdir>
Used once on the unrepaired tree to document each failing call site; the files
are kept under /verif/regressions/<PROP>/ and must hold on the repaired tree.
"""
import json
import os
import sys

sys.path.insert(0, os.path.dirname(os.path.dirname(os.path.abspath(__file__))))
from sim.env import load_curies, repo_head  # noqa: E402

load_curies()
from sim import core  # noqa: E402
from sim.minimise import minimise  # noqa: E402

prop, n, outdir = sys.argv[1], int(sys.argv[2]), sys.argv[3]
os.makedirs(outdir, exist_ok=True)
seen = {}
for i in range(n):
    seed = core.run_seed_for(0, prop, "quick", i)
    r = core.run_one(prop, seed, "quick")
    v = r["violation"]
    if v and v["signature"] not in seen:
        t, info = minimise(r["trace"], v["signature"])
        rr = core.replay_trace(t)
        t = dict(t, violation=rr["violation"], minimisation=info,
                 found_at={"base_seed": 0, "index": i, "repo_head": repo_head()})
        name = v["signature"].replace(":", "_").replace("->", "_then_") + ".json"
        json.dump(t, open(os.path.join(outdir, name), "w"), indent=1)
        seen[v["signature"]] = name
        print(v["signature"], "ops", info.get("ops_before"), "->", info.get("ops_after"))
print(len(seen), "signatures")
