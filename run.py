"""Entry point (kept outside the package so that no module is loaded twice).

Exit status: 0 held, 10 VIOLATION (mapped to 1 by ./check), 3 harness error. An exception that escapes
(even one raised because stdout cannot be written) is a harness error, never a violation.
"""
import os
import sys

sys.path.insert(0, os.path.dirname(os.path.abspath(__file__)))

if __name__ == "__main__":
    try:
        from sim.cli import main

        rc = main(sys.argv[1:])
        sys.stdout.flush()
    except SystemExit as e:
        rc = e.code if isinstance(e.code, int) else 3
    except BaseException as e:  # noqa: BLE001
        try:
            print(f"HARNESS-ERROR: {type(e).__name__}: {e}", flush=True)
        except Exception:  # noqa: BLE001
            pass
        os._exit(3)
    sys.exit({0: 0, 1: 10}.get(rc, 3))
