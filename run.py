"""Entry point (kept outside the package so that no module is loaded twice)."""
import os
import sys

sys.path.insert(0, os.path.dirname(os.path.abspath(__file__)))
from sim.cli import main  # noqa: E402

if __name__ == "__main__":
    sys.exit(main(sys.argv[1:]))
